(* Proofs/C10/Paired.v -- flags and flag lines stay paired one-to-one through the whole model:
   unpackers, TractParser, finders, ChunkParser, gen_flags_chunk, PLSSParser, hand-down.
   For every text and every setting. *)
From Coq Require Import List NArith ZArith Arith Bool Lia.
From Coq Require String.
From PyTRS Require Import Engine.Regex Gen.Patterns PyRt.Str Gen.Tables Model.Trs Model.Unpack Model.TractPre
     Model.Aliquot Model.TractParse Model.PlssPre Model.PlssParse.
Import ListNotations.
Import String.StringSyntax.
Local Open Scope string_scope.

Definition paired (f : list str) (l : list flagline) : Prop := map fst l = f.

Lemma paired_nil : paired [] []. Proof. reflexivity. Qed.
Lemma paired_app f1 l1 f2 l2 : paired f1 l1 -> paired f2 l2 -> paired (f1 ++ f2) (l1 ++ l2).
Proof. unfold paired. intros <- <-. apply map_app. Qed.
Lemma paired_one flag ctx : paired [flag] [(flag, ctx)]. Proof. reflexivity. Qed.
Lemma paired_snoc f l flag ctx : paired f l -> paired (f ++ [flag]) (l ++ [(flag, ctx)]).
Proof. intros H. apply paired_app; [exact H | apply paired_one]. Qed.
Lemma paired_map_self (fs : list str) : paired fs (map (fun f => (f, f)) fs).
Proof. unfold paired. rewrite map_map. cbn. apply map_id. Qed.
Global Hint Resolve paired_nil paired_app paired_one paired_snoc paired_map_self : paired.

Definition paired4 (f : flagset) : Prop :=
  paired (w_flags f) (w_flag_lines f) /\ paired (e_flags f) (e_flag_lines f).

(* ---------------- unpackers ---------------- *)
Lemma sections_loop_paired step : forall fuel endpos ft working flags flines u,
  paired flags flines ->
  unpack_sections_loop step fuel endpos ft working flags flines = Ok u ->
  paired (su_flags u) (su_flag_lines u).
Proof.
  induction fuel as [|fuel IH]; intros endpos ft working flags flines u Hp H; cbn [unpack_sections_loop] in H; [discriminate|].
  destruct (step endpos) as [ps|]; [|injection H as <-; exact Hp].
  destruct ps as [st0|e]; cbn [bind] in H; [|discriminate].
  destruct (int_of_group (rs_num st0)) as [n|e]; cbn [bind] in H; [|discriminate].
  destruct ft.
  - destruct (last_or working) as [prev|e]; cbn [bind] in H; [|discriminate].
    destruct (int_of_group (Some prev)) as [e0|e]; cbn [bind] in H; [|discriminate].
    destruct (elided n e0) as [ok rng]. destruct ok; cbn [bind] in H.
    + eapply IH; [|exact H]. exact Hp.
    + eapply IH; [|exact H]. apply paired_snoc. exact Hp.
  - cbn [bind] in H. eapply IH; [|exact H]. exact Hp.
Qed.

Lemma sec_unpacker_paired txt u : sec_unpacker txt = Ok u -> paired (su_flags u) (su_flag_lines u).
Proof. unfold sec_unpacker. apply sections_loop_paired. apply paired_nil. Qed.

Lemma lots_loop_paired step : forall fuel endpos ft st u,
  paired (ls_flags st) (ls_flines st) ->
  unpack_lots_loop step fuel endpos ft st = Ok u ->
  paired (lu_flags u) (lu_flag_lines u).
Proof.
  induction fuel as [|fuel IH]; intros endpos ft st u Hp H; cbn [unpack_lots_loop] in H; [discriminate|].
  destruct (step endpos) as [ps|]; [|injection H as <-; exact Hp].
  destruct ps as [st0|e]; cbn [bind] in H; [|discriminate].
  destruct (int_of_group (rs_num st0)) as [n|e]; cbn [bind] in H; [|discriminate].
  Ltac lot_step_tac IH Hp H :=
    match type of H with unpack_lots_loop _ _ _ _ ?X = _ =>
      let PX := fresh "PX" in
      assert (PX : paired (ls_flags X) (ls_flines X));
      [ destruct (rs_acreage _) as [?a|]; [destruct (assoc_str _ _)|];
        destruct (rs_word _ && negb (rs_thru _)); cbn [ls_flags ls_flines ls_working ls_acres ls_word_lot]; auto with paired
      | eapply IH; [exact PX | exact H] ]
    end.
  destruct ft.
  - destruct (last_or (ls_working st)) as [prev|e]; cbn [bind] in H; [|discriminate].
    destruct (elided n prev) as [ok rng]. destruct ok; cbn [bind] in H; lot_step_tac IH Hp H.
  - cbn [bind] in H. lot_step_tac IH Hp H.
Qed.

Lemma lot_unpacker_paired txt u : lot_unpacker txt = Ok u -> paired (lu_flags u) (lu_flag_lines u).
Proof. unfold lot_unpacker. apply lots_loop_paired. apply paired_nil. Qed.

(* ---------------- TractParser ---------------- *)
Lemma merge_acres_paired : forall new a, paired (la_w a) (la_wl a) -> paired (la_w (merge_acres new a)) (la_wl (merge_acres new a)).
Proof.
  induction new as [|[k v] t IH]; intros a Hp; [exact Hp|]. cbn [merge_acres]. apply IH.
  destruct (assoc_str k (la_acres a)); cbn [la_w la_wl]; auto with paired.
Qed.

Lemma unpack_lot_blocks_paired : forall blocks suppress a r,
  paired (la_w a) (la_wl a) -> unpack_lot_blocks blocks suppress a = Ok r -> paired (la_w r) (la_wl r).
Proof.
  induction blocks as [|[blk lead] t IH]; intros suppress a r Hp H; cbn [unpack_lot_blocks] in H; [injection H as <-; exact Hp|].
  destruct (lot_unpacker blk) as [u|e] eqn:Eu; cbn [bind] in H; [|discriminate].
  match type of H with bind ?x _ = _ => destruct x as [nl|e]; cbn [bind] in H; [|discriminate] end.
  eapply IH; [|exact H]. apply merge_acres_paired. cbn [la_w la_wl].
  apply paired_app; [exact Hp | apply (lot_unpacker_paired _ _ Eu)].
Qed.

Lemma gen_flags_paired lots qqs w wl : paired w wl -> paired (fst (gen_flags lots qqs w wl)) (snd (gen_flags lots qqs w wl)).
Proof.
  intros Hp. unfold gen_flags. destruct (find_duplicates lots); destruct (find_duplicates qqs); cbn [fst snd]; auto with paired.
Qed.

Lemma tract_parser_paired text cq sup mn mx qq bh parent r :
  paired4 parent -> tract_parser text cq sup mn mx qq bh parent = Ok r -> paired4 (tp_flags r).
Proof.
  intros [Hw He]. unfold tract_parser. intros H.
  destruct (scrub_aliquots text cq) as [t1|e]; cbn [bind] in H; [|discriminate].
  destruct (extract_lots _ t1 []) as [[text1 lb]|e]; cbn [bind] in H; [|discriminate].
  destruct (unpack_lot_blocks lb sup _) as [la|e] eqn:Ela; cbn [bind] in H; [|discriminate].
  destruct (extract_aliquots _ text1 []) as [[text2 ab]|e]; cbn [bind] in H; [|discriminate].
  destruct qq as [dq|]; (match type of H with bind ?x _ = _ => destruct x as [qqs|e]; cbn [bind] in H; [|discriminate] end);
    pose proof (gen_flags_paired (la_lots la) qqs (la_w la) (la_wl la)) as G;
    destruct (gen_flags (la_lots la) qqs (la_w la) (la_wl la)) as [w wl]; injection H as <-; cbn [tp_flags];
    (split; [apply G; eapply unpack_lot_blocks_paired; [|exact Ela]; exact Hw | exact He]).
Qed.

(* ---------------- finders ---------------- *)
Lemma trf_loop_paired txt layout mc_ns mc_ew : forall ms j acc r,
  paired (tf_flags acc) (tf_flag_lines acc) -> trf_loop txt layout mc_ns mc_ew ms j acc = Ok r ->
  paired (tf_flags r) (tf_flag_lines r).
Proof.
  induction ms as [|x rest IH]; intros j acc r Hp H; cbn [trf_loop] in H; [injection H as <-; exact Hp|].
  destruct (layout_in layout [DESC_STR; TR_DESC_S; COPY_ALL]).
  - destruct (unpack_short txt x mc_ns mc_ew) as [v|e]; cbn [bind] in H; [|discriminate].
    eapply IH; [|exact H]. exact Hp.
  - destruct (unpack_short txt x mc_ns mc_ew) as [v|e]; cbn [bind] in H; [|discriminate].
    match type of H with (if ?b then _ else _) = _ => destruct b end; (eapply IH; [|exact H]); cbn [tf_flags tf_flag_lines]; auto with paired.
Qed.

Lemma twprge_finder_paired txt layout mc_ns mc_ew r :
  twprge_finder txt layout mc_ns mc_ew = Ok r -> paired (tf_flags r) (tf_flag_lines r).
Proof. unfold twprge_finder. apply trf_loop_paired. apply paired_nil. Qed.

Lemma sf_loop_paired text layout nc : forall ms acc last r,
  paired (sf_flags acc) (sf_flag_lines acc) -> sf_loop text layout nc ms acc last = Ok r ->
  paired (sf_flags (fst r)) (sf_flag_lines (fst r)).
Proof.
  induction ms as [|x rest IH]; intros acc last r Hp H; cbn [sf_loop] in H; [injection H as <-; exact Hp|].
  destruct (sec_unpacker (group0 text x)) as [u|e] eqn:Eu; cbn [bind] in H; [|discriminate].
  match type of H with (if ?b then _ else _) = _ => destruct b end.
  - match type of H with bind ?y _ = _ => destruct y as [flag|e]; cbn [bind] in H; [|discriminate] end.
    eapply IH; [|exact H]. cbn [sf_flags sf_flag_lines]. auto with paired.
  - destruct (is_multi_sec text x) as [m|e]; cbn [bind] in H; [|discriminate].
    pose proof (sec_unpacker_paired _ _ Eu) as Pu.
    destruct m; (eapply IH; [|exact H]); cbn [sf_flags sf_flag_lines]; auto with paired.
Qed.

Lemma sec_finder_pass_paired text layout rc acc r :
  paired (sf_flags acc) (sf_flag_lines acc) -> sec_finder_pass text layout rc acc = Ok r ->
  paired (sf_flags (fst r)) (sf_flag_lines (fst r)).
Proof.
  intros Hp. unfold sec_finder_pass. apply sf_loop_paired. destruct rc; cbn [sf_flags sf_flag_lines]; auto with paired.
Qed.

Lemma sec_finder_paired text layout rc r : sec_finder text layout rc = Ok r -> paired (sf_flags r) (sf_flag_lines r).
Proof.
  unfold sec_finder. intros H.
  match type of H with bind ?x _ = _ => destruct x as [[f1 n1]|e] eqn:E1; cbn [bind] in H; [|discriminate] end.
  pose proof (sec_finder_pass_paired _ _ _ (mk_sfinder [] [] []) _ paired_nil E1) as P1. cbn [fst] in P1.
  destruct (sf_matches f1); [|injection H as <-; exact P1].
  destruct rc; try (injection H as <-; exact P1).
  match type of H with (if ?b then _ else _) = _ => destruct b end; [|injection H as <-; exact P1].
  match type of H with bind ?x _ = _ => destruct x as [[f2 n2]|e] eqn:E2; cbn [bind] in H; [|discriminate] end.
  pose proof (sec_finder_pass_paired _ _ _ _ _ P1 E2) as P2. cbn [fst] in P2.
  destruct (sf_matches f2); injection H as <-; cbn [sf_flags sf_flag_lines]; auto with paired.
Qed.

(* ---------------- ChunkParser ---------------- *)
Definition cp_paired (c : cp) : Prop := paired (cp_w c) (cp_wl c) /\ paired (cp_e c) (cp_el c).

Lemma get_next_twprge_paired c : cp_paired c -> cp_paired (get_next_twprge c).
Proof.
  intros [Hw He]. unfold get_next_twprge.
  destruct (negb (cp_ltu c) && negb match cp_wt c with None => true | Some v => str_eqb v MC_ERR_TWPRGE end);
    cbv zeta; unfold set_flags; cbn [cp_wt_list]; destruct (cp_wt_list c); split; cbn [cp_w cp_wl cp_e cp_el]; auto with paired.
Qed.

Lemma get_next_sec_paired c : cp_paired c -> cp_paired (get_next_sec c).
Proof.
  intros [Hw He]. unfold get_next_sec.
  destruct (negb (cp_lsu c) && match cp_ws c with None => false | Some _ => true end);
    cbv zeta; unfold set_flags; cbn [cp_ws_list]; destruct (cp_ws_list c); split; cbn [cp_w cp_wl cp_e cp_el]; auto with paired.
Qed.

Lemma stage_paired (c : cp) desc sec tw c' : cp_paired c -> stage_new_tract c desc sec tw = Ok c' -> cp_paired c'.
Proof. intros Hp. unfold stage_new_tract. destruct sec; [|discriminate]. intros H. injection H as <-. exact Hp. Qed.

Lemma prep_paired (c : cp) desc c' : cp_paired c -> prep_new_tract c desc = Ok c' -> cp_paired c'.
Proof.
  intros Hp. unfold prep_new_tract. destruct (cleanup_desc desc) as [d|e]; cbn [bind]; [|discriminate].
  destruct (stage_new_tract c d (cp_ws c) (cp_wt c)) as [c1|e] eqn:E; cbn [bind]; [|discriminate].
  intros H. injection H as <-. apply (stage_paired _ _ _ _ _ Hp E).
Qed.

Lemma walk_paired txt sd md : forall ms c c', cp_paired c -> walk txt sd md ms c = Ok c' -> cp_paired c'.
Proof.
  induction ms as [|p rest IH]; intros c c' Hp H; cbn [walk] in H; [injection H as <-; exact Hp|].
  destruct (md_get p md) as [mt|]; [|discriminate].
  destruct (md_get _ md) as [nmt|]; [|destruct mt; discriminate].
  destruct mt;
    try (eapply IH; [|exact H]; first [apply get_next_twprge_paired | apply get_next_sec_paired | idtac]; exact Hp).
  all: repeat match type of H with
       | (if ?b then _ else _) = _ => destruct b
       | bind ?x _ = _ => let E := fresh "E" in destruct x as [c1|e] eqn:E; cbn [bind] in H; [|discriminate]
       end;
       try (eapply IH; [|exact H]; eapply prep_paired; [exact Hp | eassumption]);
       try (eapply IH; [|exact H]; exact Hp).
Qed.

Lemma unused_flags_paired c : cp_paired c -> cp_paired (unused_flags c).
Proof.
  intros [Hw He]. unfold unused_flags, set_flags. split; cbn [cp_w cp_wl cp_e cp_el]; [exact Hw|].
  apply paired_app; [exact He | apply paired_map_self].
Qed.

Lemma cp_paired_ext w wl e el u tc wt ws wtv wsv a b :
  paired w wl -> paired e el -> cp_paired (mk_cp w wl e el u tc wt ws wtv wsv a b).
Proof. intros; split; assumption. Qed.

Lemma parse_chunk_with_paired chunk layout px c : parse_chunk_with chunk layout px = Ok c -> cp_paired c.
Proof.
  unfold parse_chunk_with. intros H.
  destruct (twprge_finder chunk (Some layout) _ _) as [tf|e] eqn:Et; cbn [bind] in H; [|discriminate].
  destruct (sec_finder chunk (Some layout) _) as [sf|e] eqn:Es; cbn [bind] in H; [|discriminate].
  pose proof (twprge_finder_paired _ _ _ _ _ Et) as Pt. pose proof (sec_finder_paired _ _ _ _ Es) as Ps.
  set (c0 := mk_cp (tf_flags tf ++ sf_flags sf) (tf_flag_lines tf ++ sf_flag_lines sf) [] [] [] []
                   (map tm_val (tf_matches tf)) (map sm_val (sf_matches sf)) None None false false) in *.
  assert (P0 : cp_paired c0) by (split; cbn; auto with paired).
  destruct (str_eqb layout COPY_ALL).
  - pose proof (get_next_sec_paired _ P0) as P1.
    destruct (cp_ws (get_next_sec c0)) as [[|x r]|]; cbn [bind] in H; try discriminate.
    eapply stage_paired; [|exact H]. apply get_next_twprge_paired. exact P1.
  - set (c1 := if negb (layout_in layout [TRS_DESC; S_DESC_TR]) then get_next_sec c0 else c0) in *.
    assert (P1 : cp_paired c1) by (unfold c1; destruct (negb (layout_in layout [TRS_DESC; S_DESC_TR])); [apply get_next_sec_paired|]; exact P0).
    set (c2 := if negb (layout_in layout [TRS_DESC; TR_DESC_S]) then get_next_twprge c1 else c1) in *.
    assert (P2 : cp_paired c2) by (unfold c2; destruct (negb (layout_in layout [TRS_DESC; TR_DESC_S])); [apply get_next_twprge_paired|]; exact P1).
    destruct (walk chunk _ _ _ c2) as [c3|e] eqn:Ew; cbn [bind] in H; [|discriminate].
    pose proof (walk_paired _ _ _ _ _ _ P2 Ew) as [P3w P3e].
    match type of H with context [unused_flags ?c5] => assert (P5 : cp_paired c5) end.
    { destruct (negb (cp_ltu c3) && _); [|]; cbn [cp_ws cp_lsu];
        (destruct (cp_ws c3) as [ws|]; [destruct (negb (cp_lsu c3) && _)|]); split; cbn; assumption. }
    pose proof (unused_flags_paired _ P5) as [P6w P6e].
    destruct (px_sec_within px).
    + destruct (rebuild_sec_within _ _) as [r|e]; cbn [bind] in H; [|discriminate].
      injection H as <-. split; cbn; assumption.
    + injection H as <-. split; assumption.
Qed.

Lemma parse_chunk_paired chunk layout px c : parse_chunk chunk layout px = Ok c -> cp_paired c.
Proof.
  unfold parse_chunk. cbv zeta.
  match goal with |- context [match ?L with Some l => parse_chunk_with chunk l px | None => _ end] => generalize L end.
  intros cl H. destruct cl as [l|].
  - destruct (parse_chunk_with chunk l px) as [c0|e] eqn:E0; cbn [bind] in H; [|discriminate].
    pose proof (parse_chunk_with_paired _ _ _ _ E0) as P0.
    destruct (cp_tc c0); [|injection H as <-; exact P0].
    destruct (str_eqb l COPY_ALL); [injection H as <-; exact P0|].
    apply (parse_chunk_with_paired _ _ _ _ H).
  - match type of H with bind ?x _ = _ => destruct x as [c0|e] eqn:E0; cbn [bind] in H; [|discriminate] end.
    assert (P0 : cp_paired c0).
    { clear H. revert E0.
      destruct (twprge_finder chunk None _ _) as [tf|e] eqn:Et; cbn [bind]; [|discriminate].
      destruct (sec_finder chunk None _) as [sf|e] eqn:Es; cbn [bind]; [|discriminate].
      pose proof (twprge_finder_paired _ _ _ _ _ Et) as Pt. pose proof (sec_finder_paired _ _ _ _ Es) as Ps.
      set (c00 := mk_cp (tf_flags tf ++ sf_flags sf) (tf_flag_lines tf ++ sf_flag_lines sf) [] [] [] []
                        (map tm_val (tf_matches tf)) (map sm_val (sf_matches sf)) None None false false).
      assert (P00 : cp_paired c00) by (split; cbn; auto with paired).
      pose proof (get_next_twprge_paired _ (get_next_sec_paired _ P00)) as P2.
      destruct (walk chunk false _ _ _) as [c3|e] eqn:Ew; cbn [bind]; [|discriminate].
      pose proof (walk_paired _ _ _ _ _ _ P2 Ew) as [P3w P3e].
      match goal with |- context [unused_flags ?c5] => assert (P5 : cp_paired c5) end.
      { destruct (negb (cp_ltu c3) && _); [|]; cbn [cp_ws cp_lsu];
          (destruct (cp_ws c3) as [ws|]; [destruct (negb (cp_lsu c3) && _)|]); split; cbn; assumption. }
      pose proof (unused_flags_paired _ P5) as [P6w P6e].
      destruct (px_sec_within px).
      + destruct (rebuild_sec_within _ _) as [r|e]; cbn [bind]; [|discriminate].
        intros H. injection H as <-. split; cbn; assumption.
      + intros H. injection H as <-. split; assumption. }
    destruct (cp_tc c0); [|injection H as <-; exact P0].
    apply (parse_chunk_with_paired _ _ _ _ H).
Qed.

(* ---------------- gen_flags_chunk ---------------- *)
Lemma flag_scan_paired row chunk : forall fuel start acc r,
  paired (fst acc) (snd acc) -> flag_scan fuel row chunk start acc = Ok r -> paired (fst r) (snd r).
Proof.
  induction fuel as [|f IH]; intros start acc r Hp H; cbn [flag_scan] in H; [discriminate|].
  destruct row as [[[[rx ng] flag] lc] rc].
  destruct (search_pe rx ng chunk start (length chunk)) as [x|]; [|injection H as <-; exact Hp].
  destruct (extend_context _ rx ng chunk rc (mend x)) as [fin|e]; cbn [bind] in H; [|discriminate].
  eapply IH; [|exact H]. cbn [fst snd]. auto with paired.
Qed.

Lemma gen_flags_rows_paired chunk : forall rows acc r,
  paired (fst acc) (snd acc) -> gen_flags_rows rows chunk acc = Ok r -> paired (fst r) (snd r).
Proof.
  induction rows as [|row t IH]; intros acc r Hp H; cbn [gen_flags_rows] in H; [injection H as <-; exact Hp|].
  destruct (flag_scan _ row chunk 0 acc) as [acc'|e] eqn:E; cbn [bind] in H; [|discriminate].
  eapply IH; [|exact H]. eapply flag_scan_paired; [exact Hp | exact E].
Qed.

Lemma gen_flags_chunk_paired chunk r : gen_flags_chunk chunk = Ok r -> paired (fst r) (snd r).
Proof. unfold gen_flags_chunk. apply gen_flags_rows_paired. apply paired_nil. Qed.

(* ---------------- PLSSParser ---------------- *)
Definition ps_paired (st : pstate) : Prop := paired (ps_w st) (ps_wl st) /\ paired (ps_e st) (ps_el st).

Lemma parse_chunks_paired : forall chunks layout px st0 st,
  ps_paired st0 -> parse_chunks chunks layout px st0 = Ok st -> ps_paired st.
Proof.
  induction chunks as [|ch rest IH]; intros layout px st0 st Hp H; cbn [parse_chunks] in H; [injection H as <-; exact Hp|].
  destruct (parse_chunk ch layout px) as [c|e] eqn:Ec; cbn [bind] in H; [|discriminate].
  destruct (gen_flags_chunk ch) as [gf|e] eqn:Eg; cbn [bind] in H; [|discriminate].
  eapply IH; [|exact H]. destruct Hp as [Hw He]. destruct (parse_chunk_paired _ _ _ _ Ec) as [Cw Ce].
  pose proof (gen_flags_chunk_paired _ _ Eg) as G. split; cbn [ps_w ps_wl ps_e ps_el]; auto with paired.
Qed.

Lemma initial_flags_paired fixed : paired (fst (initial_flags fixed)) (snd (initial_flags fixed)).
Proof. unfold initial_flags. destruct fixed; cbn; auto with paired. Qed.

Lemma make_tract_paired desc trs idx ts t : make_tract desc trs idx ts = Ok t -> paired4 (to_flags t).
Proof.
  unfold make_tract. destruct (ts_parse_qq ts).
  - destruct (tract_parser desc _ _ _ _ _ _ no_flags) as [r|e] eqn:E; cbn [bind]; [|discriminate].
    intros H. injection H as <-. cbn [to_flags]. eapply tract_parser_paired; [|exact E]. split; apply paired_nil.
  - destruct (scrub_aliquots desc _) as [pp|e]; cbn [bind]; [|discriminate].
    intros H. injection H as <-. split; apply paired_nil.
Qed.

Lemma construct_secs_paired desc tw : forall secs within idx ts r,
  construct_secs desc tw secs within idx ts = Ok r -> Forall (fun t => paired4 (to_flags t)) (fst (fst r)).
Proof.
  induction secs as [|sc rest IH]; intros within idx ts r H; cbn [construct_secs] in H; [injection H as <-; constructor|].
  destruct (make_tract desc (tw ++ sc) idx ts) as [t|e] eqn:Et; cbn [bind] in H; [|discriminate].
  destruct (construct_secs desc tw rest within (S idx) ts) as [[[tl wi] n]|e] eqn:E; cbn [bind] in H; [|discriminate].
  injection H as <-. cbn [fst]. constructor; [apply (make_tract_paired _ _ _ _ _ Et) | apply (IH _ _ _ _ E)].
Qed.

Lemma construct_tracts_paired : forall tcs cu idx ts r,
  construct_tracts tcs cu idx ts = Ok r -> Forall (fun t => paired4 (to_flags t)) (fst r).
Proof.
  induction tcs as [|c rest IH]; intros cu idx ts r H; cbn [construct_tracts] in H; [injection H as <-; constructor|].
  destruct (if cu then cleanup_desc (tc_desc c) else Ok (tc_desc c)) as [desc|e]; cbn [bind] in H; [|discriminate].
  destruct (construct_secs desc (tc_twprge c) (tc_sec c) (tc_within c) idx ts) as [[[t1 w1] n]|e] eqn:E1; cbn [bind] in H; [|discriminate].
  destruct (construct_tracts rest cu n ts) as [r2|e] eqn:E2; cbn [bind] in H; [|discriminate].
  injection H as <-. cbn [fst]. apply Forall_app. split; [apply (construct_secs_paired _ _ _ _ _ _ _ E1) | apply (IH _ _ _ _ E2)].
Qed.

Lemma map_py_wflags tracts : forall idxs wf,
  map_py (fun i => match nth_error tracts i with
                   | Some t => Ok (s "sec_within<" ++ to_trs t ++ s ">", quick_desc_short t)
                   | None => Raise IndexError end) idxs = Ok wf -> paired (map fst wf) wf.
Proof. intros. reflexivity. Qed.

Lemma assemble_paired st ptext layout' tracts unused wflags :
  ps_paired st -> Forall (fun t => paired4 (to_flags t)) tracts ->
  let p := assemble st ptext layout' tracts unused wflags in
  paired4 (po_flags p) /\ Forall (fun t => paired4 (to_flags t)) (po_tracts p).
Proof.
  intros [Hw He] Ht p.
  assert (Pf : paired4 (po_flags p)).
  { unfold p, assemble. cbv zeta. cbn [po_flags]. split; cbn [w_flags w_flag_lines e_flags e_flag_lines].
    - apply paired_app; [exact Hw | reflexivity].
    - destruct (existsb _ tracts); [apply paired_snoc|];
        (apply paired_app; [exact He|]; unfold paired; rewrite map_map; reflexivity). }
  split; [exact Pf|]. unfold p. change (po_tracts (assemble st ptext layout' tracts unused wflags))
    with (map (hand_down (po_flags (assemble st ptext layout' tracts unused wflags))) tracts).
  fold p. destruct Pf as [Fw Fe]. rewrite Forall_forall in *. intros t Hin. apply in_map_iff in Hin.
  destruct Hin as (t0 & <- & Hin0). destruct (Ht t0 Hin0) as [Tw Te].
  split; cbn [hand_down to_flags w_flags w_flag_lines e_flags e_flag_lines]; auto with paired.
Qed.

Theorem finish_parse_paired st sw cu ts ptext layout' p :
  ps_paired st -> finish_parse st sw cu ts ptext layout' = Ok p ->
  paired4 (po_flags p) /\ Forall (fun t => paired4 (to_flags t)) (po_tracts p).
Proof.
  intros Hp. unfold finish_parse.
  destruct (if sw then _ else _) as [rs|e]; cbn [bind]; [|discriminate].
  destruct (construct_tracts (fst rs) cu 0 ts) as [ct|e] eqn:Ect; cbn [bind]; [|discriminate].
  destruct (map_py _ (snd ct)) as [wf|e]; cbn [bind]; [|discriminate].
  intros H. injection H as <-. apply assemble_paired; [exact Hp | apply (construct_tracts_paired _ _ _ _ _ Ect)].
Qed.

Theorem plss_parser_paired text layout d ocr cu rc seg sw ts p :
  plss_parser text layout d ocr cu rc seg sw ts = Ok p ->
  paired4 (po_flags p) /\ Forall (fun t => paired4 (to_flags t)) (po_tracts p).
Proof.
  unfold plss_parser. destruct (plss_preprocess text d ocr) as [pp|e]; cbn [bind]; [|discriminate].
  unfold parse_text. destruct (chunks_of _ _ _ _ _) as [ch|e]; cbn [bind]; [|discriminate].
  destruct (parse_chunks _ _ _ _) as [st|e] eqn:Epc; cbn [bind]; [|discriminate].
  apply finish_parse_paired. eapply parse_chunks_paired; [|exact Epc].
  split; cbn [ps_w ps_wl ps_e ps_el]; [apply initial_flags_paired | apply paired_nil].
Qed.
