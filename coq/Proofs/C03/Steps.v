(* Proofs/C03/Steps.v -- totality of the regex-driven steps, for EVERY text:
     * a section / lot step never fails on a group (no TypeError, no ValueError): the number group is
       set on every path of the regenerated pattern and holds a non-empty string of decimal digits,
       which int() accepts (Engine/RegexStatic.v: always_set, group_body, ms_minw, ms_chars);
     * hence SecUnpacker raises nothing at all (the model's OutOfFuel apart);
     * unpack_twprge on a match of twprge_regex raises only the documented default-direction errors. *)
From Coq Require Import List NArith ZArith Arith Bool Lia.
From Coq Require String.
From PyTRS Require Import Engine.Regex Engine.RegexSpec Engine.RegexStatic Gen.Patterns Gen.PyTables PyRt.Str Gen.Tables Model.Trs Model.Unpack
     Model.PlssPre Model.PlssParse Proofs.C12.Match Proofs.C12.Full.
Import ListNotations.
Import String.StringSyntax.
Local Open Scope string_scope.

(* ---- int() accepts every non-empty string of decimal digits (any script) ---- *)
Definition digp (c : N) : bool := negb (is_space c) && is_digit c && negb (c =? 95)%N && negb (c =? 43)%N && negb (c =? 45)%N.

Lemma strip_digits w : Forall (fun c => digp c = true) w -> strip w = w.
Proof.
  intros H. unfold strip, strip_by, rstrip_by.
  assert (L : forall t, Forall (fun c => digp c = true) t -> lstrip_by is_space t = t).
  { intros t Ht. destruct Ht as [|c t Hc _]; [reflexivity|]. cbn [lstrip_by]. unfold digp in Hc.
    repeat (apply andb_true_iff in Hc; destruct Hc as [Hc ?]). apply negb_true_iff in Hc. rewrite Hc. reflexivity. }
  rewrite (L w H). rewrite (L (rev w)) by (apply Forall_rev; exact H). apply rev_involutive.
Qed.

Lemma int_digits_ok : forall w acc pd, Forall (fun c => digp c = true) w -> (w <> [] \/ pd = true) -> int_digits w acc pd <> None.
Proof.
  induction w as [|c w IH]; intros acc pd H Hne; cbn [int_digits].
  - destruct Hne as [K | K]; [contradiction | rewrite K; discriminate].
  - inversion H as [|? ? Hc Hw]; subst. unfold digp in Hc. repeat (apply andb_true_iff in Hc; destruct Hc as [Hc ?]).
    repeat match goal with K : negb _ = true |- _ => apply negb_true_iff in K end.
    replace (c =? 95)%N with false by (symmetry; assumption).
    unfold is_digit in *. destruct (digit_val c) as [d|]; [|discriminate]. apply IH; [exact Hw | right; reflexivity].
Qed.

Lemma py_int_digits w : w <> [] -> length w <= 100 -> Forall (fun c => digp c = true) w -> py_int w <> None.
Proof.
  intros Hne HL H. rewrite py_int_unsigned; [rewrite (strip_digits w H) | exact HL | rewrite (strip_digits w H)].
  - pose proof (int_digits_ok w 0%N false H (or_introl Hne)) as K. destruct (int_digits w 0 false); [discriminate | contradiction].
  - intros c r E. subst w. inversion H as [|? ? Hc _]; subst. unfold digp in Hc. repeat (apply andb_true_iff in Hc; destruct Hc as [Hc ?]).
    repeat match goal with K : negb _ = true |- _ => apply negb_true_iff in K end. split; apply N.eqb_neq; assumption.
Qed.

(* the value of a string of at most three digits lies in 0..999 *)
Definition small (z : Z) : Prop := (0 <= z <= 999)%Z.

Lemma digit_val_lt c d : digit_val c = Some d -> (d < 10)%N.
Proof.
  unfold digit_val. generalize PY_DIGITS as l. induction l as [|[lo hi] l IH]; cbn [digit_val_in]; [discriminate|].
  destruct ((lo <=? c) && (c <=? hi))%N; [|exact IH]. intros H. injection H as <-. apply N.mod_lt. discriminate.
Qed.

Lemma int_digits_bound : forall w acc pd n, Forall (fun c => digp c = true) w -> int_digits w acc pd = Some n ->
  (n < (acc + 1) * 10 ^ N.of_nat (length w))%N.
Proof.
  induction w as [|c w IH]; intros acc pd n H E; cbn [int_digits] in E.
  - destruct pd; [|discriminate]. injection E as <-. cbn. lia.
  - inversion H as [|? ? Hc Hw]; subst. unfold digp in Hc. repeat (apply andb_true_iff in Hc; destruct Hc as [Hc ?]).
    repeat match goal with K : negb _ = true |- _ => apply negb_true_iff in K end.
    replace (c =? 95)%N with false in E by (symmetry; assumption).
    destruct (digit_val c) as [d|] eqn:Ed; [|discriminate]. pose proof (digit_val_lt _ _ Ed) as Hd.
    specialize (IH _ _ _ Hw E). cbn [length]. rewrite Nat2N.inj_succ, N.pow_succ_r'.
    remember (10 ^ N.of_nat (length w))%N as P. nia.
Qed.

Lemma py_int_small w z : w <> [] -> length w <= 3 -> Forall (fun c => digp c = true) w -> py_int w = Some z -> small z.
Proof.
  intros Hne HL H E. rewrite py_int_unsigned in E; [rewrite (strip_digits w H) in E | lia | rewrite (strip_digits w H)].
  - destruct (int_digits w 0 false) as [n|] eqn:En; [|discriminate]. injection E as <-.
    pose proof (int_digits_bound _ _ _ _ H En) as B.
    assert (P : (10 ^ N.of_nat (length w) <= 1000)%N).
    { destruct w as [|a [|b [|c [|d w']]]]; cbn [length] in *; try lia; cbn; lia. }
    unfold small. lia.
  - intros c r E'. subst w. inversion H as [|? ? Hc _]; subst. unfold digp in Hc. repeat (apply andb_true_iff in Hc; destruct Hc as [Hc ?]).
    repeat match goal with K : negb _ = true |- _ => apply negb_true_iff in K end. split; apply N.eqb_neq; assumption.
Qed.

(* a group whose every body is at least one character wide and built from digit sets only *)
Definition dig_body (b : re) : bool :=
  (1 <=? minw b) && (match maxw b with Some k => k <=? 3 | None => false end) && forallb (fun cs => forallb digp (expand cs)) (csets b).
Definition dig_group (r : re) (j : nat) : bool := forallb dig_body (gbodies r j).

Lemma dig_body_int b mid : dig_body b = true -> consumed_by b mid -> exists z, py_int mid = Some z /\ small z.
Proof.
  intros Hb Hc. unfold dig_body in Hb. apply andb_true_iff in Hb. destruct Hb as [Hb Hs]. apply andb_true_iff in Hb. destruct Hb as [Hw Hm]. apply Nat.leb_le in Hw.
  destruct (maxw b) as [k|] eqn:Ek; [|discriminate]. apply Nat.leb_le in Hm. pose proof (consumed_maxw b mid k Hc Ek) as HL.
  destruct (consumed_facts b mid Hc) as [F L].
  assert (Hne : mid <> []) by (destruct mid; [cbn in L; lia | discriminate]).
  assert (Hd : Forall (fun c => digp c = true) mid).
  { eapply Forall_impl; [|exact F]. intros c (cs & Hin & Hcs). exact (sweep digp cs (proj1 (forallb_forall _ _) Hs cs Hin) c Hcs). }
  pose proof (py_int_digits mid Hne ltac:(lia) Hd) as K. destruct (py_int mid) as [z|] eqn:Ez; [|contradiction].
  exists z. split; [reflexivity | exact (py_int_small mid z Hne ltac:(lia) Hd Ez)].
Qed.

Lemma search_pe_int r ng t pos endpos x j v :
  dig_group r j = true -> search_pe r ng t pos endpos = Some x -> group t x j = Some v -> exists z, py_int v = Some z /\ small z.
Proof.
  intros Hd Hs Hg. unfold group in Hg. destruct (getg (mcaps x) j) as [[a b]|] eqn:E; [|discriminate]. injection Hg as <-.
  destruct (search_pe_group r ng t pos endpos x j Hs) as [_ K]. destruct (K a b E) as (bd & Hin & Hc).
  exact (dig_body_int bd _ (proj1 (forallb_forall _ _) Hd bd Hin) Hc).
Qed.

(* ---- the facts about the two list patterns, computed on the regenerated ASTs ---- *)
Lemma sec_facts :
  always_set multisec_regex (mg_num sec_groups) = true /\ (mg_num sec_groups <= multisec_regex_ng) /\
  dig_group multisec_regex (mg_num sec_groups) = true /\ dig_group multisec_regex (mg_num_rightmost sec_groups) = true.
Proof. split; [vm_compute; reflexivity|]. split; [cbv; repeat constructor|]. split; vm_compute; reflexivity. Qed.

Lemma lot_facts :
  always_set multilot_regex (mg_num lot_groups) = true /\ (mg_num lot_groups <= multilot_regex_ng) /\
  dig_group multilot_regex (mg_num lot_groups) = true /\ dig_group multilot_regex (mg_num_rightmost lot_groups) = true.
Proof. split; [vm_compute; reflexivity|]. split; [cbv; repeat constructor|]. split; vm_compute; reflexivity. Qed.

Lemma group_some_of_getg t x j : getg (mcaps x) j <> None -> exists v, group t x j = Some v.
Proof. intros H. unfold group. destruct (getg (mcaps x) j) as [[a b]|]; [eexists; reflexivity | contradiction]. Qed.

(* one step of either list: the number is there and is an integer *)
Lemma step_number r ng G t e x :
  always_set r (mg_num G) = true -> mg_num G <= ng -> dig_group r (mg_num G) = true -> dig_group r (mg_num_rightmost G) = true ->
  search_pe r ng t 0 e = Some x ->
  exists num multi z, get_rightmost G t x = Ok num /\ is_multi G t x = Ok multi /\ int_of_group num = Ok z /\ small z.
Proof.
  intros Ha Hle Hd Hdr Hs.
  destruct (search_pe_group r ng t 0 e x (mg_num G) Hs) as [K1 _]. destruct (group_some_of_getg t x _ (K1 Ha Hle)) as (v & Hv).
  unfold get_rightmost, is_multi. destruct (group t x (mg_num_rightmost G)) as [vr|] eqn:Er; cbn [is_some bind].
  - destruct (search_pe_int r ng t 0 e x _ vr Hdr Hs Er) as (z & Ez & Sz).
    exists (Some vr), true, z. unfold int_of_group. rewrite Ez. auto.
  - rewrite Hv. cbn [is_some bind]. destruct (search_pe_int r ng t 0 e x _ v Hd Hs Hv) as (z & Ez & Sz).
    exists (Some v), false, z. unfold int_of_group. rewrite Ez. auto.
Qed.

Lemma sec_step_small txt e r : sec_step txt e = Some r -> exists st z, r = Ok st /\ int_of_group (rs_num st) = Ok z /\ small z.
Proof.
  unfold sec_step. destruct (search_pe multisec_regex multisec_regex_ng txt 0 e) as [x|] eqn:Hs; [|discriminate]. intros H. injection H as <-.
  destruct sec_facts as (F1 & F2 & F3 & F4). destruct (step_number _ _ sec_groups txt e x F1 F2 F3 F4 Hs) as (num & multi & z & E1 & E2 & E3 & E4).
  rewrite E1, E2. cbn [bind]. eexists. exists z. split; [reflexivity | split; [exact E3 | exact E4]].
Qed.

Theorem sec_step_total txt e r : sec_step txt e = Some r -> exists st z, r = Ok st /\ int_of_group (rs_num st) = Ok z.
Proof. intros H. destruct (sec_step_small txt e r H) as (st & z & H1 & H2 & _). exists st, z. auto. Qed.

Theorem lot_step_total txt e r : lot_step txt e = Some r -> exists st z, r = Ok st /\ int_of_group (rs_num st) = Ok z.
Proof.
  unfold lot_step. destruct (search_pe multilot_regex multilot_regex_ng txt 0 e) as [x|] eqn:Hs; [|discriminate]. intros H. injection H as <-.
  destruct lot_facts as (F1 & F2 & F3 & F4). destruct (step_number _ _ lot_groups txt e x F1 F2 F3 F4 Hs) as (num & multi & z & E1 & E2 & E3 & _).
  rewrite E1, E2. cbn [bind]. eexists. exists z. split; [reflexivity | exact E3].
Qed.

(* ---- SecUnpacker is total (OutOfFuel is the model's bound on the loop, not a Python exception) ---- *)
(* every section held in the working list is the two-digit rendering of a number in 0..999, which int() reads back (sweep) *)
Definition two_digit_sweep : bool :=
  forallb (fun i => match py_int (two_digit (Z.of_nat i)) with Some z => (z =? Z.of_nat i)%Z | None => false end) (seq 0 1000).
Lemma two_digit_sweep_true : two_digit_sweep = true.
Proof. vm_compute. reflexivity. Qed.

Lemma int_two_digit z : small z -> int_of_group (Some (two_digit z)) = Ok z.
Proof.
  intros [H1 H2]. pose proof two_digit_sweep_true as S. unfold two_digit_sweep in S.
  rewrite forallb_forall in S. specialize (S (Z.to_nat z)).
  rewrite Z2Nat.id in S by lia.
  assert (In (Z.to_nat z) (seq 0 1000)) by (apply in_seq; lia).
  specialize (S H). unfold int_of_group. destruct (py_int (two_digit z)) as [w|]; [|discriminate].
  apply Z.eqb_eq in S. subst. reflexivity.
Qed.

Definition is_td (w : str) : Prop := exists z, w = two_digit z /\ small z.

Lemma last_or_in {A} (l : list A) : l <> [] -> exists x, last_or l = Ok x /\ In x l.
Proof.
  intros H. unfold last_or. destruct (rev l) as [|x r] eqn:E.
  - exfalso. apply H. rewrite <- (rev_involutive l), E. reflexivity.
  - exists x. split; [reflexivity|]. apply in_rev. rewrite E. left. reflexivity.
Qed.

Lemma zrange_down_in : forall k from x, In x (zrange_down k from) -> (from - Z.of_nat k < x <= from)%Z.
Proof. induction k as [|k IH]; intros from x H; cbn [zrange_down] in H; [destruct H|]. destruct H as [<-|H]; [lia|]. specialize (IH _ _ H). lia. Qed.

Lemma zrange_up_in : forall k from x, In x (zrange_up k from) -> (from <= x < from + Z.of_nat k)%Z.
Proof. induction k as [|k IH]; intros from x H; cbn [zrange_up] in H; [destruct H|]. destruct H as [<-|H]; [lia|]. specialize (IH _ _ H). lia. Qed.

Lemma elided_small n e : small n -> small e -> Forall small (snd (elided n e)).
Proof.
  intros [N1 N2] [E1 E2]. unfold elided. destruct (n <? e)%Z eqn:C; cbn [snd]; apply Forall_forall; intros x Hx.
  - apply Z.ltb_lt in C. apply zrange_down_in in Hx. unfold small. lia.
  - apply Z.ltb_ge in C. apply zrange_up_in in Hx. unfold small. lia.
Qed.

Lemma sections_loop_raises txt : forall fuel endpos ft working flags flines e,
  (ft = true -> working <> []) -> Forall is_td working ->
  unpack_sections_loop (sec_step txt) fuel endpos ft working flags flines = Raise e -> e = OutOfFuel.
Proof.
  induction fuel as [|f IH]; intros endpos ft working flags flines e Hft Htd H; cbn [unpack_sections_loop] in H; [injection H as <-; reflexivity|].
  destruct (sec_step txt endpos) as [ps|] eqn:Es; [|discriminate].
  destruct (sec_step_small txt endpos ps Es) as (st0 & z & -> & Ez & Sz). cbn [bind] in H. rewrite Ez in H. cbn [bind] in H.
  destruct ft.
  - destruct (last_or_in working (Hft eq_refl)) as (prev & El & Hin). rewrite El in H. cbn [bind] in H.
    destruct (proj1 (Forall_forall _ _) Htd prev Hin) as (zp & -> & Szp).
    rewrite (int_two_digit zp Szp) in H. cbn [bind] in H.
    pose proof (elided_small z zp Sz Szp) as Hs. destruct (elided z zp) as [ok rng]. cbn [snd] in Hs.
    assert (Hw : Forall is_td (working ++ map two_digit rng)).
    { apply Forall_app. split; [exact Htd|]. apply Forall_forall. intros x Hx. apply in_map_iff in Hx. destruct Hx as (y & <- & Hy).
      exists y. split; [reflexivity | exact (proj1 (Forall_forall _ _) Hs y Hy)]. }
    assert (Hn : rs_thru st0 = true -> working ++ map two_digit rng <> []).
    { intros _ K. apply app_eq_nil in K. destruct K as [K _]. exact (Hft eq_refl K). }
    destruct ok; cbn [bind] in H; exact (IH _ _ _ _ _ _ Hn Hw H).
  - cbn [bind] in H. apply (IH _ _ _ _ _ _) in H; [exact H | |].
    + intros _ K. apply app_eq_nil in K. destruct K as [_ K]. discriminate K.
    + apply Forall_app. split; [exact Htd|]. constructor; [exists z; split; [reflexivity | exact Sz] | constructor].
Qed.

Theorem sec_unpacker_total txt e : sec_unpacker txt = Raise e -> e = OutOfFuel.
Proof. unfold sec_unpacker. apply sections_loop_raises; [discriminate | constructor]. Qed.

(* ---- unpack_twprge on a match of twprge_regex raises only the documented default-direction errors ---- *)
Lemma twprge_facts :
  always_any twprge_regex [tg_twpnum twprge_regex_groups] = true /\
  always_any twprge_regex [tg_rgenum twprge_regex_groups; tg_rge2 twprge_regex_groups] = true /\
  forallb (fun b => 1 <=? minw b) (gbodies twprge_regex (tg_ns twprge_regex_groups)) = true /\
  forallb (fun b => 1 <=? minw b) (gbodies twprge_regex (tg_ew twprge_regex_groups)) = true /\
  tg_rge2 twprge_regex_groups <> 0 /\
  (forall j, In j [tg_twpnum twprge_regex_groups; tg_rgenum twprge_regex_groups; tg_rge2 twprge_regex_groups] -> j <= twprge_regex_ng).
Proof.
  split; [vm_compute; reflexivity|]. split; [vm_compute; reflexivity|]. split; [vm_compute; reflexivity|]. split; [vm_compute; reflexivity|].
  split; [vm_compute; discriminate|]. intros j Hj. vm_compute in Hj. destruct Hj as [<-|[<-|[<-|[]]]]; vm_compute; repeat constructor.
Qed.

Lemma group_nonempty r ng t x j v :
  In x (finditer r ng t) -> forallb (fun b => 1 <=? minw b) (gbodies r j) = true -> group t x j = Some v -> v <> [].
Proof.
  intros Hx Hm Hg. unfold group in Hg. destruct (getg (mcaps x) j) as [[a b]|] eqn:E; [|discriminate]. injection Hg as <-.
  destruct (finditer_group r ng t x Hx) as [_ K]. destruct (K j a b E) as (bd & Hin & Hc).
  destruct (consumed_facts bd _ Hc) as [_ L]. pose proof (proj1 (forallb_forall _ _) Hm bd Hin) as Hw. apply Nat.leb_le in Hw.
  destruct (slice t a b); [cbn in L; lia | discriminate].
Qed.

Theorem unpack_short_total txt x mc_ns mc_ew e :
  In x (finditer twprge_regex twprge_regex_ng txt) -> unpack_short txt x mc_ns mc_ew = Raise e ->
  e = DefaultNSError \/ e = DefaultEWError.
Proof.
  intros Hx. destruct twprge_facts as (F1 & F2 & F3 & F4 & F5 & F6).
  destruct (finditer_group _ _ _ _ Hx) as [KA _].
  unfold unpack_short, unpack_twprge. cbv zeta.
  destruct (negb (mem_str mc_ns MC_LEGAL_NS)); [intros H; injection H as <-; left; reflexivity|].
  destruct (negb (mem_str mc_ew MC_LEGAL_EW)); [intros H; injection H as <-; right; reflexivity|].
  (* the township number group is set *)
  destruct (KA _ F1 ltac:(intros j [<-|[]]; apply F6; left; reflexivity)) as (j1 & [<-|[]] & S1).
  destruct (group_some_of_getg txt x _ S1) as (twp & Et). rewrite Et.
  (* N/S: a set group is never empty *)
  assert (Hns : exists ns, match group txt x (tg_ns twprge_regex_groups) with Some v0 => first_char v0 | None => Ok mc_ns end = Ok ns).
  { destruct (group txt x (tg_ns twprge_regex_groups)) as [v0|] eqn:En; [|eexists; reflexivity].
    pose proof (group_nonempty _ _ _ _ _ _ Hx F3 En) as Hne. destruct v0 as [|c0 v0']; [contradiction|]. eexists. reflexivity. }
  destruct Hns as (ns & ->). cbn [bind].
  (* range number, or the range-2 edge case *)
  assert (Hr : exists rge, match group txt x (tg_rgenum twprge_regex_groups) with
                           | Some v0 => Ok v0
                           | None => match tg_rge2 twprge_regex_groups with
                                     | 0 => Raise KeyError
                                     | S _ => match group txt x (tg_rge2 twprge_regex_groups) with Some v0 => Ok v0 | None => Raise TypeError end
                                     end
                           end = Ok rge).
  { destruct (KA _ F2 ltac:(intros j [<-|[<-|[]]]; apply F6; cbn; auto)) as (j2 & Hj2 & S2).
    destruct (group txt x (tg_rgenum twprge_regex_groups)) as [v0|] eqn:Er; [eexists; reflexivity|].
    destruct Hj2 as [<-|[<-|[]]].
    - exfalso. destruct (group_some_of_getg txt x _ S2) as (v & Ev). congruence.
    - destruct (tg_rge2 twprge_regex_groups) eqn:E2; [contradiction|]. rewrite <- E2 in *.
      destruct (group_some_of_getg txt x _ S2) as (v & ->). eexists. reflexivity. }
  destruct Hr as (rge & ->). cbn [bind].
  assert (Hew : exists ew, match group txt x (tg_ew twprge_regex_groups) with Some v0 => first_char v0 | None => Ok mc_ew end = Ok ew).
  { destruct (group txt x (tg_ew twprge_regex_groups)) as [v0|] eqn:En; [|eexists; reflexivity].
    pose proof (group_nonempty _ _ _ _ _ _ Hx F4 En) as Hne. destruct v0 as [|c0 v0']; [contradiction|]. eexists. reflexivity. }
  destruct Hew as (ew & ->). cbn [bind]. discriminate.
Qed.

(* ---- LotUnpacker and the lot-division step of TractParser are total as well ---- *)
Lemma lots_loop_raises txt : forall fuel endpos ft st e,
  (ft = true -> ls_working st <> []) -> unpack_lots_loop (lot_step txt) fuel endpos ft st = Raise e -> e = OutOfFuel.
Proof.
  induction fuel as [|f IH]; intros endpos ft st e Hft H; cbn [unpack_lots_loop] in H; [injection H as <-; reflexivity|].
  destruct (lot_step txt endpos) as [ps|] eqn:Es; [|discriminate].
  destruct (lot_step_total txt endpos ps Es) as (st0 & z & -> & Ez). cbn [bind] in H. rewrite Ez in H. cbn [bind] in H.
  assert (G : forall st1, ls_working st1 <> [] ->
            unpack_lots_loop (lot_step txt) f (rs_endpos st0) (rs_thru st0)
              (let st2 := match rs_acreage st0 with
                          | None => st1
                          | Some a =>
                              let name := s "L" ++ str_of_Z z in
                              let '(fl, fll) := match assoc_str name (ls_acres st1) with
                                                | Some old => let flag := s "dup_lot_acreage<" ++ name ++ s "(" ++ old ++ s ")>" in
                                                              (ls_flags st1 ++ [flag], ls_flines st1 ++ [(flag, flag)])
                                                | None => (ls_flags st1, ls_flines st1)
                                                end in
                              mk_lot_state (ls_working st1) (dict_set name a (ls_acres st1)) fl fll (ls_word_lot st1)
                          end in
               if rs_word st0 && negb (rs_thru st0) then mk_lot_state (ls_working st2) (ls_acres st2) (ls_flags st2) (ls_flines st2) (length (ls_working st2)) else st2)
            = Raise e -> e = OutOfFuel).
  { intros st1 Hne. cbv zeta. intros K. apply IH in K; [exact K|]. intros _.
    destruct (rs_acreage st0) as [a|]; [destruct (assoc_str _ (ls_acres st1))|]; destruct (rs_word st0 && negb (rs_thru st0)); cbn [ls_working]; exact Hne. }
  destruct ft.
  - destruct (last_or_in (ls_working st) (Hft eq_refl)) as (prev & El & Hin). rewrite El in H. cbn [bind] in H.
    destruct (elided z prev) as [ok rng]. destruct ok; cbn [bind] in H; apply G in H; try exact H; cbn [ls_working]; intros K; apply app_eq_nil in K; destruct K as [K _]; exact (Hft eq_refl K).
  - cbn [bind] in H. apply G in H; [exact H|]. cbn [ls_working]. intros K. apply app_eq_nil in K. destruct K as [_ K]. discriminate K.
Qed.

Theorem lot_unpacker_total txt e : lot_unpacker txt = Raise e -> e = OutOfFuel.
Proof. unfold lot_unpacker. apply lots_loop_raises. discriminate. Qed.
