(* Proofs/C03/Tract.v -- parsing a Tract is total, for EVERY text:
     * the substitute-until-stable scrubbers raise nothing (the model's OutOfFuel apart), and the groups their
       callbacks read are set on every path of the regenerated patterns (no TypeError in `len(None)` / `None + str`);
     * the `lots` group of multilot_with_aliquot_regex is always set; LotUnpacker's `aliquots_through` never exceeds
       the number of lots (no IndexError in _apply_lot_divs);
     * every block cut out by aliquot_unpacker_regex is a string of clean halves / quarters (Engine/RegexLang.v), every
       component single_aliquot_unpacker_regex then finds in it is one of the eight documented ones, so that the chain
       handed to the aliquot parser is a valid chain and (C02_core) parse_aliquot returns. *)
From Coq Require Import List NArith ZArith Arith Bool Lia.
From Coq Require String.
From PyTRS Require Import Engine.Regex Engine.RegexSpec Engine.RegexStatic Engine.RegexLang Gen.Patterns Gen.PyTables PyRt.Str Gen.Tables
     Model.Trs Model.Unpack Model.TractPre Model.Aliquot Model.TractParse Spec.Geometry Spec.C02Spec Proofs.C02.Main Proofs.C03.Steps
     Proofs.C12.Full.
Import ListNotations.
Import String.StringSyntax.
Local Open Scope string_scope.

(* ---------------- the substitute-until-stable loops ---------------- *)
Lemma until_stable_raises f : forall fuel t e, until_stable fuel f t = Raise e -> e = OutOfFuel.
Proof.
  induction fuel as [|fu IH]; intros t e H; cbn [until_stable] in H; [congruence|].
  destruct (str_eqb (f t) t); [discriminate | exact (IH _ _ H)].
Qed.

Lemma fold_scrub_raises : forall l t e, fold_scrub l t = Raise e -> e = OutOfFuel.
Proof.
  induction l as [|[[r ng] repl] l IH]; intros t e H; cbn [fold_scrub] in H; [discriminate|].
  unfold sub_scrubber in H. destruct (until_stable _ _ t) as [t'|e'] eqn:E; cbn [bind] in H.
  - exact (IH _ _ H).
  - injection H as <-. exact (until_stable_raises _ _ _ _ E).
Qed.

Theorem scrub_aliquots_raises t cq e : scrub_aliquots t cq = Raise e -> e = OutOfFuel.
Proof.
  unfold scrub_aliquots. intros H.
  destruct (fold_scrub TRACT_SCRUBBER_REGEXES t) as [t1|e1] eqn:E1; cbn [bind] in H; [|injection H as <-; exact (fold_scrub_raises _ _ _ E1)].
  destruct (if cq then fold_scrub TRACT_CLEAN_QQ_REGEXES t1 else Ok t1) as [t2|e2] eqn:E2; cbn [bind] in H.
  2:{ injection H as <-. destruct cq; [exact (fold_scrub_raises _ _ _ E2) | discriminate]. }
  unfold half_plus_q_scrubber, remove_aliquot_interveners in H.
  destruct (until_stable _ _ t2) as [t3|e3] eqn:E3; cbn [bind] in H; [|injection H as <-; exact (until_stable_raises _ _ _ _ E3)].
  exact (until_stable_raises _ _ _ _ H).
Qed.

(* the groups the two callbacks read are set on every path: the `None` branches of the model are dead *)
Theorem half_plus_q_group_set t x : In x (finditer half_plus_q_regex half_plus_q_regex_ng t) ->
  exists v, group t x half_plus_q_regex_g_quarter_aliquot_rightmost = Some v.
Proof. intros H. apply (finditer_group_set _ _ _ _ _ H); [vm_compute; reflexivity | cbv; repeat constructor]. Qed.

Theorem intervener_groups_set t x : In x (finditer aliquot_intervener_remover_regex aliquot_intervener_remover_regex_ng t) ->
  (exists v, group t x aliquot_intervener_remover_regex_g_aliquot1 = Some v) /\
  (exists v, group t x aliquot_intervener_remover_regex_g_aliquot2 = Some v).
Proof. intros H. split; apply (finditer_group_set _ _ _ _ _ H); try (vm_compute; reflexivity); cbv; repeat constructor. Qed.

(* ---------------- extract_lots / extract_aliquots ---------------- *)
Theorem extract_lots_raises : forall fuel t acc e, extract_lots fuel t acc = Raise e -> e = OutOfFuel.
Proof.
  induction fuel as [|fu IH]; intros t acc e H; cbn [extract_lots] in H; [congruence|].
  destruct (search multilot_with_aliquot_regex multilot_with_aliquot_regex_ng t) as [x|] eqn:Hs; [|discriminate].
  destruct (search_group_set _ _ _ _ multilot_with_aliquot_regex_g_lots Hs) as (v & Hv); [vm_compute; reflexivity | cbv; repeat constructor|].
  rewrite Hv in H. exact (IH _ _ _ H).
Qed.

(* ---------------- aliquots_through <= number of lots ---------------- *)
Lemma lots_loop_through step : forall fuel e ft st u,
  unpack_lots_loop step fuel e ft st = Ok u -> ls_word_lot st <= length (ls_working st) ->
  Z.to_nat (lu_aliquots_through u) <= length (lu_list u).
Proof.
  induction fuel as [|fu IH]; intros e ft st u H Hinv; cbn [unpack_lots_loop] in H; [discriminate|].
  destruct (step e) as [ps|].
  2:{ injection H as <-. cbn [lu_aliquots_through lu_list]. rewrite map_length, rev_length. lia. }
  destruct ps as [st0|e0]; cbn [bind] in H; [|discriminate].
  destruct (int_of_group (rs_num st0)) as [n|e1]; cbn [bind] in H; [|discriminate].
  match type of H with bind ?X _ = _ => destruct X as [st1|e2] eqn:E1 end; cbn [bind] in H; [|discriminate].
  assert (H1 : ls_word_lot st1 <= length (ls_working st1)).
  { destruct ft.
    - destruct (last_or (ls_working st)) as [prev|]; cbn [bind] in E1; [|discriminate]. destruct (elided n prev) as [ok rng].
      destruct ok; injection E1 as <-; cbn [ls_word_lot ls_working]; rewrite app_length; lia.
    - injection E1 as <-. cbn [ls_word_lot ls_working]. rewrite app_length. lia. }
  refine (IH _ _ _ _ H _). clear H IH.
  set (st2 := match rs_acreage st0 with None => st1 | Some _ => _ end).
  assert (H2 : ls_word_lot st2 <= length (ls_working st2)).
  { unfold st2. destruct (rs_acreage st0) as [a|]; [|exact H1]. destruct (assoc_str _ _); cbn [ls_word_lot ls_working]; exact H1. }
  destruct (rs_word st0 && negb (rs_thru st0)); [cbn [ls_word_lot ls_working]; lia | exact H2].
Qed.

Lemma lot_unpacker_through blk u : lot_unpacker blk = Ok u -> Z.to_nat (lu_aliquots_through u) <= length (lu_list u).
Proof. unfold lot_unpacker. intros H. apply (lots_loop_through _ _ _ _ _ _ H). cbn. lia. Qed.

Lemma apply_lot_divs_ok : forall n lead lots, n <= length lots -> exists r, apply_lot_divs n lead lots = Ok r.
Proof.
  induction n as [|n IH]; intros lead lots H; cbn [apply_lot_divs]; [eexists; reflexivity|].
  destruct lots as [|l t]; [cbn in H; lia|]. destruct (IH lead t ltac:(cbn in H; lia)) as (r & ->). cbn [bind]. eexists. reflexivity.
Qed.

Theorem unpack_lot_blocks_raises : forall blocks sup a e, unpack_lot_blocks blocks sup a = Raise e -> e = OutOfFuel.
Proof.
  induction blocks as [|[blk lead] t IH]; intros sup a e H; cbn [unpack_lot_blocks] in H; [discriminate|].
  destruct (lot_unpacker blk) as [u|e0] eqn:Eu; cbn [bind] in H; [|injection H as <-; exact (lot_unpacker_total _ _ Eu)].
  match type of H with bind ?X _ = _ => destruct X as [nl|e2] eqn:E1 end; cbn [bind] in H; [exact (IH _ _ _ H)|].
  exfalso. destruct lead as [ld|]; [|discriminate]. destruct sup; [discriminate|].
  destruct (apply_lot_divs_ok _ (remove_fractions ld) _ (lot_unpacker_through _ _ Eu)) as (r & Hr). congruence.
Qed.

(* ---------------- the shape of an aliquot block ---------------- *)
Definition LET : list (N * N) := [(69, 69); (78, 78); (83, 83); (87, 87)]%N.        (* E N S W *)
Definition isL (c : N) : bool := in_ranges c LET.
Definition isQ (c1 c2 : N) : bool := ((c1 =? 78) || (c1 =? 83))%N && ((c2 =? 69) || (c2 =? 87))%N.

(* the token pattern, as written in aliquot_unpacker_regex (group numbers as emitted for that pattern) *)
Definition TOKRE : re :=
  Alt (Grp 2 (Seq (Chr LET) (Chr [(189, 189)]%N)))
      (Grp 3 (Seq (Grp 4 (Alt (Seq (Chr [(78, 78)]%N) (Chr [(69, 69)]%N))
                          (Alt (Seq (Chr [(78, 78)]%N) (Chr [(87, 87)]%N))
                          (Alt (Seq (Chr [(83, 83)]%N) (Chr [(69, 69)]%N))
                               (Seq (Chr [(83, 83)]%N) (Chr [(87, 87)]%N))))))
                  (Chr [(188, 188)]%N))).

Lemma unpacker_shape : exists w1 w2, aliquot_unpacker_regex = Seq (Bnd w1) (Seq (Rep 1 None (Grp 1 TOKRE)) (Bnd w2)).
Proof. eexists. eexists. reflexivity. Qed.

Definition tok (w : list N) : Prop :=
  (exists c, isL c = true /\ w = [c; 189]%N) \/ (exists c1 c2, isQ c1 c2 = true /\ w = [c1; c2; 188]%N).

Lemma in_single c a : in_ranges c [(a, a)] = true -> c = a.
Proof. cbn [in_ranges]. destruct (c <? a)%N eqn:E1; [discriminate|]. destruct (c <=? a)%N eqn:E2; [|discriminate]. intros _. apply N.ltb_ge in E1. apply N.leb_le in E2. lia. Qed.

Lemma lang_tok w : lang TOKRE w -> tok w.
Proof.
  unfold TOKRE. cbn [lang]. intros [H|H].
  - destruct H as (w1 & w2 & -> & (c & -> & Hc) & (d & -> & Hd)). apply in_single in Hd. subst d. left. exists c. split; [exact Hc | reflexivity].
  - destruct H as (w1 & w2 & -> & Hq & (d & -> & Hd)). apply in_single in Hd. subst d. right.
    destruct Hq as [Hq|[Hq|[Hq|Hq]]]; destruct Hq as (u1 & u2 & -> & (c1 & -> & H1) & (c2 & -> & H2)); apply in_single in H1, H2; subst c1 c2;
      eexists; eexists; (split; [|reflexivity]); vm_compute; reflexivity.
Qed.

Definition block_shape (b : str) : Prop := exists toks, b = concat toks /\ Forall tok toks /\ toks <> [].

Lemma unpacker_block t x : search aliquot_unpacker_regex aliquot_unpacker_regex_ng t = Some x -> block_shape (group0 t x).
Proof.
  intros H. apply search_lang in H. destruct unpacker_shape as (w1 & w2 & E). rewrite E in H. cbn [lang] in H.
  destruct H as (u1 & u2 & -> & -> & (u3 & u4 & -> & (ws & -> & F & Hn & _) & ->)). cbn [app]. rewrite app_nil_r.
  exists ws. split; [reflexivity|]. split; [eapply Forall_impl; [|exact F]; intros w Hw; exact (lang_tok w Hw)|].
  intros ->. cbn in Hn. lia.
Qed.

(* two adjacent letters of a block are a quarter; every character is a letter or a fraction sign *)
Fixpoint adj_ok (b : str) : bool :=
  match b with
  | c1 :: t => (match t with c2 :: _ => if isL c1 && isL c2 then isQ c1 c2 else true | [] => true end) && adj_ok t
  | [] => true
  end.
Definition chr_ok (c : N) : bool := isL c || (c =? 189)%N || (c =? 188)%N.

Lemma isL_cases c : isL c = true -> c = 69%N \/ c = 78%N \/ c = 83%N \/ c = 87%N.
Proof.
  unfold isL, LET. cbn [in_ranges].
  repeat match goal with |- context [(c <? ?a)%N] => destruct (N.ltb_spec c a); [discriminate|] | |- context [(c <=? ?a)%N] => destruct (N.leb_spec c a) end;
    first [discriminate | intros _; lia].
Qed.

Lemma isQ_cases c1 c2 : isQ c1 c2 = true -> (c1 = 78%N \/ c1 = 83%N) /\ (c2 = 69%N \/ c2 = 87%N).
Proof.
  unfold isQ. intros H. apply andb_true_iff in H. destruct H as [H1 H2]. apply orb_true_iff in H1, H2.
  split; [destruct H1 as [K|K] | destruct H2 as [K|K]]; apply N.eqb_eq in K; auto.
Qed.

Lemma tokens_ok : forall toks, Forall tok toks -> adj_ok (concat toks) = true /\ forallb chr_ok (concat toks) = true.
Proof.
  induction toks as [|w ws IH]; intros H; [split; reflexivity|]. inversion H as [|? ? Hw Hws]; subst. destruct (IH Hws) as [IA IC]. cbn [concat].
  destruct Hw as [(c & Hc & ->)|(c1 & c2 & Hq & ->)].
  - cbn [app]. split.
    + cbn [adj_ok]. replace (isL 189) with false by reflexivity. rewrite andb_false_r. cbn [andb].
      destruct (concat ws) as [|d r] eqn:E; [reflexivity|]. cbn [andb]. exact IA.
    + cbn [forallb]. unfold chr_ok at 1 2. rewrite Hc. cbn. exact IC.
  - destruct (isQ_cases _ _ Hq) as [[-> | ->] [-> | ->]]; cbn [app]; (split;
      [ cbn [adj_ok]; destruct (concat ws) as [|d r] eqn:E; [reflexivity|]; replace (isL 188) with false by reflexivity; cbn; exact IA
      | cbn [forallb]; rewrite IC; reflexivity ]).
Qed.

Lemma adj_ok_skipn : forall a b, adj_ok b = true -> adj_ok (skipn a b) = true.
Proof.
  induction a as [|a IH]; intros b H; [exact H|]. destruct b as [|c t]; [reflexivity|]. cbn [skipn]. apply IH.
  cbn [adj_ok] in H. apply andb_true_iff in H. exact (proj2 H).
Qed.

Lemma forallb_skipn {A} (f : A -> bool) : forall a l, forallb f l = true -> forallb f (skipn a l) = true.
Proof. induction a as [|a IH]; intros l H; [exact H|]. destruct l as [|c t]; [reflexivity|]. cbn in H. apply andb_true_iff in H. exact (IH _ (proj2 H)). Qed.

Lemma forallb_firstn {A} (f : A -> bool) : forall a l, forallb f l = true -> forallb f (firstn a l) = true.
Proof. induction a as [|a IH]; intros l H; [reflexivity|]. destruct l as [|c t]; [reflexivity|]. cbn in H |- *. apply andb_true_iff in H. rewrite (proj1 H). exact (IH _ (proj2 H)). Qed.

(* ---------------- the components found in a block ---------------- *)
Definition BODY : re := Alt (Rep 1 (Some 2) (Chr LET)) (Seq (Chr [(65, 65)]%N) (Seq (Chr [(76, 76)]%N) (Chr [(76, 76)]%N))).

Lemma single_body : gbodies single_aliquot_unpacker_regex single_aliquot_unpacker_regex_g_aliquot_no_frac = [BODY].
Proof. reflexivity. Qed.

Lemma lang_body v : lang BODY v -> (exists c, v = [c] /\ isL c = true) \/ (exists c1 c2, v = [c1; c2] /\ isL c1 = true /\ isL c2 = true) \/ v = ALIQ_ALL.
Proof.
  unfold BODY. cbn [lang]. intros [H|H].
  - destruct H as (ws & -> & F & H1 & H2). cbn in H2.
    destruct ws as [|w1 [|w2 [|w3 ws]]]; cbn [length] in *; try lia.
    + inversion F as [|? ? (c & -> & Hc) _]; subst. left. exists c. auto.
    + inversion F as [|? ? (c & -> & Hc) F']; subst. inversion F' as [|? ? (d & -> & Hd) _]; subst. right. left. exists c, d. auto.
  - destruct H as (w1 & w2 & -> & (a & -> & Ha) & (w3 & w4 & -> & (l1 & -> & Hl1) & (l2 & -> & Hl2))). apply in_single in Ha, Hl1, Hl2. subst. right. right. reflexivity.
Qed.

Definition qh_comp (c : comp) : Prop := c <> CALL.

Lemma block_component b a e : adj_ok b = true -> forallb chr_ok b = true -> lang BODY (slice b a e) ->
  exists c, comp_of_str (slice b a e) = Some c /\ c <> CALL.
Proof.
  intros HA HC HL. destruct (lang_body _ HL) as [(c & E & Hc)|[(c1 & c2 & E & H1 & H2)|E]]; rewrite E.
  - destruct (isL_cases _ Hc) as [-> |[-> |[-> | ->]]]; eexists; (split; [vm_compute; reflexivity | discriminate]).
  - assert (Q : isQ c1 c2 = true).
    { unfold slice in E. pose proof (adj_ok_skipn a b HA) as K. destruct (skipn a b) as [|d1 [|d2 r]]; [destruct (e - a); discriminate | destruct (e - a) as [|[|?]]; discriminate |].
      destruct (e - a) as [|[|?]]; try discriminate. cbn [firstn] in E. injection E as -> -> _. cbn [adj_ok] in K. rewrite H1, H2 in K. cbn [andb] in K.
      apply andb_true_iff in K. exact (proj1 K). }
    destruct (isQ_cases _ _ Q) as [[-> | ->] [-> | ->]]; eexists; (split; [vm_compute; reflexivity | discriminate]).
  - exfalso. unfold slice in E. pose proof (forallb_firstn chr_ok (e - a) _ (forallb_skipn chr_ok a b HC)) as K. rewrite E in K. vm_compute in K. discriminate.
Qed.

Definition good_comps (l : list (option str)) : Prop := exists comps, comps_of_strs l = Some comps /\ Forall qh_comp comps.

Lemma block_components b : block_shape b -> good_comps (components_of_text b).
Proof.
  intros (toks & -> & F & _). destruct (tokens_ok toks F) as [HA HC]. set (b := concat toks) in *. unfold components_of_text.
  assert (K : forall x, In x (finditer single_aliquot_unpacker_regex single_aliquot_unpacker_regex_ng b) ->
              exists v c, group b x single_aliquot_unpacker_regex_g_aliquot_no_frac = Some v /\ comp_of_str v = Some c /\ c <> CALL).
  { intros x Hx. destruct (finditer_group_set _ _ _ _ single_aliquot_unpacker_regex_g_aliquot_no_frac Hx) as (v & Hv); [vm_compute; reflexivity | cbv; repeat constructor|].
    exists v. destruct (finditer_group_lang _ _ _ _ _ _ Hx Hv) as (bd & Hin & HL). rewrite single_body in Hin. destruct Hin as [<-|[]].
    assert (Hs : exists a e, v = slice b a e).
    { unfold group in Hv. destruct (getg (mcaps x) _) as [[a e]|]; [|discriminate]. injection Hv as <-. eexists. eexists. reflexivity. }
    destruct Hs as (a & e & ->). destruct (block_component b a e HA HC HL) as (c & E1 & E2). exists c. auto. }
  revert K. generalize (finditer single_aliquot_unpacker_regex single_aliquot_unpacker_regex_ng b) as ms. induction ms as [|x ms IH]; intros K.
  - exists []. split; [reflexivity | constructor].
  - destruct (K x (or_introl eq_refl)) as (v & c & Hv & Hc & Hn). destruct (IH (fun y Hy => K y (or_intror Hy))) as (comps & E & Fq).
    exists (c :: comps). cbn [map comps_of_strs]. rewrite Hv, Hc, E. split; [reflexivity | constructor; assumption].
Qed.

(* ---------------- parse_aliquot returns on every such block ---------------- *)
(* the depth settings of a valid configuration, as C02 words them: min >= 0, max absent or >= max(min, 1) *)
Definition depths_ok (mn : Z) (mx qq : option Z) : Prop :=
  exists (n : nat) (M : option nat), resolve_depths mn mx qq = (Z.of_nat n, option_map Z.of_nat M) /\
                                     match M with Some M => n <= M /\ 1 <= M | None => True end.

Definition good_block (b : str) : Prop :=
  exists comps, comps_of_strs (components_of_text b) = Some comps /\ (Forall qh_comp comps \/ comps = [CALL]).

Lemma parse_aliquot_some b mn mx qq bh : depths_ok mn mx qq -> good_block b -> exists q, parse_aliquot b mn mx qq bh = Some q.
Proof.
  intros (n & M & ER & HM) (comps & EC & HC). unfold parse_aliquot. rewrite ER, EC.
  assert (K : exists pieces, parse_comps (rev comps) (Z.of_nat n) (option_map Z.of_nat M) bh = Some pieces).
  { destruct comps as [|c0 cs]; [eexists; reflexivity|].
    assert (V : valid_chain (rev (c0 :: cs))).
    { destruct HC as [F| ->]; [|left; reflexivity]. right. split.
      - intros E. apply (f_equal (@length comp)) in E. rewrite rev_length in E. discriminate.
      - apply Forall_rev. exact F. }
    destruct (C02_core _ n M bh V HM) as (pieces & E & _). exists pieces. exact E. }
  destruct K as (pieces & ->). eexists. reflexivity.
Qed.

Lemma all_block_good : good_block ALIQ_ALL.
Proof. exists [CALL]. split; [vm_compute; reflexivity | right; reflexivity]. Qed.

Lemma shape_good b : block_shape b -> good_block b.
Proof. intros H. destruct (block_components b H) as (comps & E & F). exists comps. auto. Qed.

Lemma parse_blocks_raises mn mx qq bh : depths_ok mn mx qq -> forall blocks e, Forall good_block blocks -> parse_blocks blocks mn mx qq bh <> Raise e.
Proof.
  intros HD. induction blocks as [|b t IH]; intros e F; cbn [parse_blocks]; [discriminate|].
  inversion F as [|? ? Hb Ht]; subst. destruct (parse_aliquot_some b mn mx qq bh HD Hb) as (q & ->).
  destruct (parse_blocks t mn mx qq bh) as [r|e'] eqn:E; cbn [bind]; [discriminate|]. exfalso. exact (IH e' Ht eq_refl).
Qed.

Lemma extract_aliquots_spec : forall fuel t acc,
  Forall block_shape acc ->
  match extract_aliquots fuel t acc with
  | Ok r => Forall block_shape (snd r)
  | Raise e => e = OutOfFuel
  end.
Proof.
  induction fuel as [|fu IH]; intros t acc F; cbn [extract_aliquots]; [reflexivity|].
  destruct (search aliquot_unpacker_regex aliquot_unpacker_regex_ng t) as [x|] eqn:Hs.
  - apply IH. constructor; [exact (unpacker_block t x Hs) | exact F].
  - cbn [snd]. apply Forall_rev. exact F.
Qed.

Lemma depths_resolved mn mx qq : depths_ok mn mx qq ->
  depths_ok (fst (match qq with Some d => (d, Some d) | None => (mn, mx) end)) (snd (match qq with Some d => (d, Some d) | None => (mn, mx) end)) qq.
Proof. intros (n & M & E & H). exists n, M. split; [|exact H]. destruct qq; exact E. Qed.

(* TractParser raises nothing, whatever the text, under any valid depth settings (OutOfFuel is the model's loop bound) *)
Theorem tract_parser_total txt cq sup mn mx qq bh parent e :
  depths_ok mn mx qq -> tract_parser txt cq sup mn mx qq bh parent = Raise e -> e = OutOfFuel.
Proof.
  intros HD H. unfold tract_parser in H.
  destruct (scrub_aliquots txt cq) as [text|e0] eqn:E0; cbn [bind] in H; [|injection H as <-; exact (scrub_aliquots_raises _ _ _ E0)].
  destruct (extract_lots _ text []) as [[text1 lot_blocks]|e1] eqn:E1; cbn [bind] in H; [|injection H as <-; exact (extract_lots_raises _ _ _ _ E1)].
  destruct (unpack_lot_blocks lot_blocks sup _) as [la|e2] eqn:E2; cbn [bind] in H; [|injection H as <-; exact (unpack_lot_blocks_raises _ _ _ _ E2)].
  pose proof (extract_aliquots_spec (S (S (length text1))) text1 [] (Forall_nil _)) as K.
  destruct (extract_aliquots _ text1 []) as [[text2 aliq_blocks]|e3] eqn:E3; cbn [bind] in H; [|injection H as <-; exact K].
  cbn [snd] in K. exfalso.
  set (blocks := match search all_regex all_regex_ng _ with Some x => _ | None => aliq_blocks end) in H.
  assert (F : Forall good_block blocks).
  { assert (F0 : Forall good_block aliq_blocks) by (eapply Forall_impl; [|exact K]; exact shape_good).
    unfold blocks. destruct (search all_regex all_regex_ng _) as [x|]; [|exact F0]. destruct (group _ x all_regex_g_context); [exact F0|].
    apply Forall_app. split; [exact F0 | constructor; [exact all_block_good | constructor]]. }
  pose proof (depths_resolved mn mx qq HD) as HD'. destruct (match qq with Some d => (d, Some d) | None => (mn, mx) end) as [mn' mx'] eqn:EQ. cbn [fst snd] in HD'.
  destruct (parse_blocks blocks mn' mx' qq bh) as [qqs|e4] eqn:E4; cbn [bind] in H.
  - destruct (gen_flags _ _ _ _). discriminate.
  - exact (parse_blocks_raises mn' mx' qq bh HD' blocks e4 F E4).
Qed.

Example depths_ok_default : depths_ok 2 None None /\ depths_ok 2 (Some 3%Z) None /\ depths_ok 2 None (Some 1%Z) /\ depths_ok 0 None None.
Proof.
  split; [exists 2, None; split; [reflexivity | exact I]|]. split; [exists 2, (Some 3); split; [reflexivity | lia]|].
  split; [exists 1, (Some 1); split; [reflexivity | lia] | exists 0, None; split; [reflexivity | exact I]].
Qed.

Lemma scrubber_groups_set : forall t x,
  (In x (finditer half_plus_q_regex half_plus_q_regex_ng t) -> exists v, group t x half_plus_q_regex_g_quarter_aliquot_rightmost = Some v) /\
  (In x (finditer aliquot_intervener_remover_regex aliquot_intervener_remover_regex_ng t) ->
     (exists v, group t x aliquot_intervener_remover_regex_g_aliquot1 = Some v) /\ (exists v, group t x aliquot_intervener_remover_regex_g_aliquot2 = Some v)).
Proof. intros t x. split; [apply half_plus_q_group_set | apply intervener_groups_set]. Qed.
