(* Proofs/C03/Desc.v -- which exceptions the description-level parse can raise, for EVERY text and setting.
     * unpack_twprge on a match of ANY of the preprocessing patterns (with its own group table) raises only the
       documented default-direction errors: the facts are computed on each regenerated pattern;
     * hence plss_preprocess, find_twprge, TwpRgeFinder and PLSSChunker raise nothing else;
     * clean-up, flag generation and sec_within rebuilding raise nothing (OutOfFuel apart). *)
From Coq Require Import List NArith ZArith Arith Bool Lia.
From Coq Require String.
From PyTRS Require Import Engine.Regex Engine.RegexSpec Engine.RegexStatic Engine.RegexLift Engine.RegexLang Engine.RegexComplete Gen.Patterns Gen.PyTables PyRt.Str Gen.Tables
     Model.Trs Model.Unpack Model.TractPre Model.Aliquot Model.TractParse Model.PlssPre Model.PlssParse
     Proofs.C03.Steps Proofs.C03.Tract.
Import ListNotations.
Import String.StringSyntax.
Local Open Scope string_scope.

Definition minw1 (r : re) (j : nat) : bool := forallb (fun b => 1 <=? minw b) (gbodies r j).

Definition twprge_static (r : re) (ng : nat) (G : twprge_groups) : bool :=
  always_any r [tg_twpnum G] && (tg_twpnum G <=? ng) && (tg_rgenum G <=? ng) && (tg_rge2 G <=? ng) &&
  (match tg_rge2 G with O => always_any r [tg_rgenum G] | _ => always_any r [tg_rgenum G; tg_rge2 G] end) &&
  minw1 r (tg_ns G) && minw1 r (tg_ew G).

Definition dflt_err (e : exn) : Prop := e = DefaultNSError \/ e = DefaultEWError.

Theorem unpack_twprge_total r ng G t x dns dew ocr mcns mcew e :
  twprge_static r ng G = true -> In x (finditer r ng t) -> unpack_twprge G t x dns dew ocr mcns mcew = Raise e -> dflt_err e.
Proof.
  intros HS Hx. unfold twprge_static in HS.
  apply andb_true_iff in HS as [HS Hmew]. apply andb_true_iff in HS as [HS Hmns]. apply andb_true_iff in HS as [HS Hany].
  apply andb_true_iff in HS as [HS L3]. apply andb_true_iff in HS as [HS L2]. apply andb_true_iff in HS as [HS L1].
  apply Nat.leb_le in L1, L2, L3.
  destruct (finditer_group _ _ _ _ Hx) as [KA _].
  unfold unpack_twprge. cbv zeta.
  destruct (negb (mem_str _ MC_LEGAL_NS)); [intros K; injection K as <-; left; reflexivity|].
  destruct (negb (mem_str _ MC_LEGAL_EW)); [intros K; injection K as <-; right; reflexivity|].
  destruct (KA _ HS ltac:(intros j [<-|[]]; assumption)) as (j1 & [<-|[]] & S1).
  destruct (group_some_of_getg t x _ S1) as (twp & Et). rewrite Et.
  assert (Hns : exists ns, match group t x (tg_ns G) with Some v0 => first_char v0 | None => Ok (match dns with Some d => d | None => mcns end) end = Ok ns).
  { destruct (group t x (tg_ns G)) as [v0|] eqn:En; [|eexists; reflexivity].
    pose proof (group_nonempty _ _ _ _ _ _ Hx Hmns En) as Hne. destruct v0 as [|c0 v0']; [contradiction|]. eexists. reflexivity. }
  destruct Hns as (ns & ->). cbn [bind].
  assert (Hr : exists rge, match group t x (tg_rgenum G) with
                           | Some v0 => Ok v0
                           | None => match tg_rge2 G with
                                     | 0 => Raise KeyError
                                     | S _ => match group t x (tg_rge2 G) with Some v0 => Ok v0 | None => Raise TypeError end
                                     end
                           end = Ok rge).
  { destruct (group t x (tg_rgenum G)) as [v0|] eqn:Er; [eexists; reflexivity|].
    destruct (tg_rge2 G) as [|k] eqn:E2.
    - destruct (KA _ Hany ltac:(intros j [<-|[]]; assumption)) as (j2 & [<-|[]] & S2).
      exfalso. destruct (group_some_of_getg t x _ S2) as (v & Ev). congruence.
    - destruct (KA _ Hany ltac:(intros j [<-|[<-|[]]]; assumption)) as (j2 & Hj2 & S2).
      destruct Hj2 as [<-|[<-|[]]].
      + exfalso. destruct (group_some_of_getg t x _ S2) as (v & Ev). congruence.
      + destruct (group_some_of_getg t x _ S2) as (v & ->). eexists. reflexivity. }
  destruct Hr as (rge & ->). cbn [bind].
  assert (Hew : exists ew, match group t x (tg_ew G) with Some v0 => first_char v0 | None => Ok (match dew with Some d => d | None => mcew end) end = Ok ew).
  { destruct (group t x (tg_ew G)) as [v0|] eqn:En; [|eexists; reflexivity].
    pose proof (group_nonempty _ _ _ _ _ _ Hx Hmew En) as Hne. destruct v0 as [|c0 v0']; [contradiction|]. eexists. reflexivity. }
  destruct Hew as (ew & ->). cbn [bind]. discriminate.
Qed.

Definition rg_static (rg : re * nat * twprge_groups * bool) : bool := let '(r, ng, G, _) := rg in twprge_static r ng G.

Lemma scrubbers_static :
  rg_static PLSS_OCR_SCRUBBER = true /\ Forall (fun rg => rg_static rg = true) PLSS_SCRUBBER_REGEXES /\
  twprge_static twprge_regex twprge_regex_ng twprge_regex_groups = true.
Proof.
  split; [vm_compute; reflexivity|]. split; [|vm_compute; reflexivity].
  apply Forall_forall. apply forallb_forall. vm_compute. reflexivity.
Qed.

(* ---------------- SecUnpacker on the text of a multisec_regex match finds at least one section ---------------- *)
Lemma sections_loop_grows step : forall fuel endpos ft working flags flines u,
  unpack_sections_loop step fuel endpos ft working flags flines = Ok u -> length working <= length (su_list u).
Proof.
  induction fuel as [|f IH]; intros endpos ft working flags flines u H; cbn [unpack_sections_loop] in H; [discriminate|].
  destruct (step endpos) as [ps|]; [|injection H as <-; cbn [su_list]; rewrite rev_length; lia].
  destruct ps as [st0|]; cbn [bind] in H; [|discriminate]. destruct (int_of_group (rs_num st0)) as [n|]; cbn [bind] in H; [|discriminate].
  destruct ft.
  - destruct (last_or working) as [prev|]; cbn [bind] in H; [|discriminate]. destruct (int_of_group (Some prev)) as [e|]; cbn [bind] in H; [|discriminate].
    destruct (elided n e) as [ok rng]. destruct ok; cbn [bind] in H; apply IH in H; rewrite app_length in H; lia.
  - cbn [bind] in H. apply IH in H. rewrite app_length in H. cbn [length] in H. lia.
Qed.

Lemma multisec_ctxfree : ctxfree multisec_regex = true.
Proof. vm_compute. reflexivity. Qed.

Theorem sec_unpacker_match_nonempty text x u :
  In x (finditer multisec_regex multisec_regex_ng text) -> sec_unpacker (group0 text x) = Ok u -> su_list u <> [].
Proof.
  intros Hx. set (txt := group0 text x). pose proof (finditer_lang _ _ _ _ Hx) as HL. fold txt in HL.
  pose proof (lang_search multisec_regex multisec_regex_ng txt [] multisec_ctxfree HL) as Hs. rewrite app_nil_r in Hs.
  unfold sec_unpacker. generalize (S (length txt)) as f. intros f. cbn [unpack_sections_loop]. intros H.
  destruct (sec_step txt (length txt)) as [ps|] eqn:Es.
  2:{ exfalso. unfold sec_step in Es. change (search_pe multisec_regex multisec_regex_ng txt 0 (length txt)) with (search multisec_regex multisec_regex_ng txt) in Es.
      destruct (search multisec_regex multisec_regex_ng txt); [discriminate | contradiction]. }
  destruct (sec_step_total txt _ ps Es) as (st0 & z & -> & Ez). cbn [bind] in H. rewrite Ez in H. cbn [bind app] in H.
  apply sections_loop_grows in H. cbn [length] in H. destruct (su_list u); [cbn in H; lia | discriminate].
Qed.

(* ---------------- the pieces around the chunk parser ---------------- *)
Definition ok_err (e : exn) : Prop := e = OutOfFuel \/ dflt_err e.

Lemma map_py_raises {A B} (f : A -> Py B) (P : exn -> Prop) : forall l e,
  (forall x e, In x l -> f x = Raise e -> P e) -> map_py f l = Raise e -> P e.
Proof.
  induction l as [|x t IH]; intros e Hf H; cbn [map_py] in H; [discriminate|].
  destruct (f x) as [y|e0] eqn:E; cbn [bind] in H; [|injection H as <-; exact (Hf x e0 (or_introl eq_refl) E)].
  destruct (map_py f t) as [r|e1] eqn:E1; cbn [bind] in H; [discriminate|]. injection H as <-.
  exact (IH e1 (fun x e Hx => Hf x e (or_intror Hx)) eq_refl).
Qed.

Lemma find_twprge_raw_raises t d e : find_twprge_raw t d = Raise e -> dflt_err e.
Proof.
  unfold find_twprge_raw. apply map_py_raises. intros x e0 Hx H.
  exact (unpack_twprge_total _ _ _ _ _ _ _ _ _ _ _ (proj2 (proj2 scrubbers_static)) Hx H).
Qed.

Lemma sub_scrub_fold_raises r ng G ocr orig d : twprge_static r ng G = true -> forall ms txt e,
  incl ms (finditer r ng orig) -> sub_scrub_fold G ocr orig ms txt d = Raise e -> dflt_err e.
Proof.
  intros HS. induction ms as [|x t IH]; intros txt e Hin H; cbn [sub_scrub_fold] in H; [discriminate|].
  destruct (unpack_twprge G orig x _ _ ocr _ _) as [clean|e0] eqn:E; cbn [bind] in H.
  - exact (IH _ _ (fun y Hy => Hin y (or_intror Hy)) H).
  - injection H as <-. exact (unpack_twprge_total _ _ _ _ _ _ _ _ _ _ _ HS (Hin x (or_introl eq_refl)) E).
Qed.

Lemma plss_scrub_all_raises d : forall l txt e,
  Forall (fun rg => rg_static rg = true) l -> plss_scrub_all l txt d = Raise e -> dflt_err e.
Proof.
  induction l as [|[[[r ng] G] ocr] l IH]; intros txt e HS H; cbn [plss_scrub_all] in H; [discriminate|].
  inversion HS as [|? ? H1 H2]; subst. unfold rg_static in H1.
  unfold plss_sub_scrubber in H. destruct (sub_scrub_fold G ocr txt _ txt d) as [t'|e0] eqn:E; cbn [bind] in H.
  - exact (IH _ _ H2 H).
  - injection H as <-. exact (sub_scrub_fold_raises r ng G ocr txt d H1 _ _ _ (incl_refl _) E).
Qed.

Lemma bind_raise {A B} (x : Py A) (f : A -> Py B) e : bind x f = Raise e -> x = Raise e \/ exists a, x = Ok a /\ f a = Raise e.
Proof. destruct x as [a|e0]; cbn [bind]; intros H; [right; exists a; auto | left; injection H as ->; reflexivity]. Qed.

Lemma reduce_whitespace_raises t e : reduce_whitespace t = Raise e -> e = OutOfFuel.
Proof. unfold reduce_whitespace. apply until_stable_raises. Qed.

Theorem plss_preprocess_raises txt d ocr e : plss_preprocess txt d ocr = Raise e -> ok_err e.
Proof.
  unfold plss_preprocess. intros H.
  apply bind_raise in H. destruct H as [H|(ol & _ & H)]; [right; exact (find_twprge_raw_raises _ _ _ H)|].
  apply bind_raise in H. destruct H as [H|(t1 & _ & H)].
  { right. refine (plss_scrub_all_raises _ _ _ _ _ H). destruct scrubbers_static as (S1 & S2 & _).
    destruct ocr; [constructor; assumption | exact S2]. }
  apply bind_raise in H. destruct H as [H|(t2 & _ & H)]; [left; exact (reduce_whitespace_raises _ _ H)|].
  apply bind_raise in H. destruct H as [H|(pl & _ & H)]; [right; exact (find_twprge_raw_raises _ _ _ H) | discriminate].
Qed.

Lemma cleanup_desc_raises t e : cleanup_desc t = Raise e -> e = OutOfFuel.
Proof. unfold cleanup_desc. destruct t; [discriminate|]. apply until_stable_raises. Qed.

Lemma trf_loop_raises txt layout mc_ns mc_ew : forall ms j acc e,
  incl ms (finditer twprge_regex twprge_regex_ng txt) -> trf_loop txt layout mc_ns mc_ew ms j acc = Raise e -> dflt_err e.
Proof.
  induction ms as [|x t IH]; intros j acc e Hin H; cbn [trf_loop] in H; [discriminate|].
  assert (Ht : incl t (finditer twprge_regex twprge_regex_ng txt)) by (intros y Hy; exact (Hin y (or_intror Hy))).
  destruct (unpack_short txt x mc_ns mc_ew) as [v|e0] eqn:E.
  2:{ assert (K : e = e0) by (destruct (layout_in layout _); cbn [bind] in H; congruence). subst e0.
      exact (unpack_short_total _ _ _ _ _ (Hin x (or_introl eq_refl)) E). }
  destruct (layout_in layout _); cbn [bind] in H; [exact (IH _ _ _ Ht H)|].
  match type of H with (if ?c then _ else _) = _ => destruct c end; exact (IH _ _ _ Ht H).
Qed.

Lemma twprge_finder_raises txt layout mc_ns mc_ew e : twprge_finder txt layout mc_ns mc_ew = Raise e -> dflt_err e.
Proof. unfold twprge_finder. apply trf_loop_raises. apply incl_refl. Qed.

Lemma seg_first_raises text : forall ms first blocks unused e, seg_first text ms first blocks unused = Raise e -> e = OutOfFuel.
Proof.
  induction ms as [|m t IH]; intros first blocks unused e H; cbn [seg_first] in H; [discriminate|].
  destruct (cleanup_desc _) as [b|e0] eqn:E; cbn [bind] in H; [exact (IH _ _ _ _ H) | injection H as <-; exact (cleanup_desc_raises _ _ E)].
Qed.

Lemma seg_last_raises text : forall ms pe blocks unused e, seg_last text ms pe blocks unused = Raise e -> e = OutOfFuel.
Proof.
  induction ms as [|m t IH]; intros pe blocks unused e H; cbn [seg_last] in H; [discriminate|].
  destruct (cleanup_desc _) as [b|e0] eqn:E; cbn [bind] in H; [exact (IH _ _ _ _ H) | injection H as <-; exact (cleanup_desc_raises _ _ E)].
Qed.

Lemma chunks_of_raises seg ptext layout' a b e : chunks_of seg ptext layout' a b = Raise e -> ok_err e.
Proof.
  unfold chunks_of. destruct seg; [|discriminate]. unfold plss_chunker.
  destruct (twprge_finder ptext (Some layout') a b) as [tf|e0] eqn:E; cbn [bind]; [|intros H; injection H as <-; right; exact (twprge_finder_raises _ _ _ _ _ E)].
  destruct (tf_matches tf) as [|m ms]; [discriminate|]. destruct (str_eqb layout' COPY_ALL); [discriminate|].
  destruct (layout_in layout' _); intros H; left; [exact (seg_first_raises _ _ _ _ _ _ H) | exact (seg_last_raises _ _ _ _ _ _ H)].
Qed.

Lemma extend_context_raises r ng chunk rc : forall fuel e_ e, extend_context fuel r ng chunk rc e_ = Raise e -> e = OutOfFuel.
Proof.
  induction fuel as [|f IH]; intros e_ e H; cbn [extend_context] in H; [congruence|].
  destruct (search_pe r ng chunk e_ _); [exact (IH _ _ H) | discriminate].
Qed.

Lemma flag_scan_raises row chunk : forall fuel sp acc e, flag_scan fuel row chunk sp acc = Raise e -> e = OutOfFuel.
Proof.
  induction fuel as [|f IH]; intros sp acc e H; cbn [flag_scan] in H; [congruence|].
  destruct row as [[[[r ng] flag] lc] rc]. destruct (search_pe r ng chunk sp _) as [x|]; [|discriminate].
  destruct (extend_context _ r ng chunk rc (mend x)) as [fin|e0] eqn:E; cbn [bind] in H; [exact (IH _ _ _ H) | injection H as <-; exact (extend_context_raises _ _ _ _ _ _ _ E)].
Qed.

Lemma gen_flags_chunk_raises chunk e : gen_flags_chunk chunk = Raise e -> e = OutOfFuel.
Proof.
  unfold gen_flags_chunk. generalize (@nil str, @nil flagline) as acc. generalize FLAG_TABLE as rows.
  induction rows as [|row t IH]; intros acc H; cbn [gen_flags_rows] in H; [discriminate|].
  destruct (flag_scan _ row chunk 0 acc) as [acc'|e0] eqn:E; cbn [bind] in H; [exact (IH _ H) | injection H as <-; exact (flag_scan_raises _ _ _ _ _ _ E)].
Qed.

Lemma rsw_loop_raises : forall unused desc e, rsw_loop unused desc = Raise e -> e = OutOfFuel.
Proof.
  induction unused as [|[i u] t IH]; intros desc e H; cbn [rsw_loop] in H; [discriminate|].
  destruct (cleanup_desc u) as [u'|e0] eqn:E; cbn [bind] in H; [|injection H as <-; exact (cleanup_desc_raises _ _ E)].
  destruct (_ <=? _); exact (IH _ _ H).
Qed.

Lemma rebuild_sec_within_raises tcs unused e : rebuild_sec_within tcs unused = Raise e -> e = OutOfFuel.
Proof.
  unfold rebuild_sec_within. destruct tcs as [|c [|c2 t]]; try discriminate.
  destruct (rsw_loop unused (tc_desc c)) as [desc|e0] eqn:E; cbn [bind]; [destruct (str_eqb _ _); discriminate | intros H; injection H as <-; exact (rsw_loop_raises _ _ _ E)].
Qed.

(* ---------------- construct_tracts ---------------- *)
Definition ts_ok (ts : tsettings) : Prop := depths_ok (ts_mn ts) (ts_mx ts) None.

Lemma make_tract_raises desc trs idx ts e : ts_ok ts -> make_tract desc trs idx ts = Raise e -> e = OutOfFuel.
Proof.
  intros HD. unfold make_tract. destruct (ts_parse_qq ts).
  - destruct (tract_parser desc _ _ _ _ None _ no_flags) as [r|e0] eqn:E; cbn [bind]; [discriminate|]. intros H. injection H as <-.
    exact (tract_parser_total _ _ _ _ _ _ _ _ _ HD E).
  - destruct (scrub_aliquots desc _) as [pp|e0] eqn:E; cbn [bind]; [discriminate|]. intros H. injection H as <-. exact (scrub_aliquots_raises _ _ _ E).
Qed.

Lemma construct_secs_spec desc twprge within ts : ts_ok ts -> forall secs idx,
  match construct_secs desc twprge secs within idx ts with
  | Ok (tl, wi, n) => length tl = length secs /\ n = idx + length secs /\ Forall (fun i => idx <= i < n) wi
  | Raise e => e = OutOfFuel
  end.
Proof.
  intros HD. induction secs as [|sc rest IH]; intros idx; cbn [construct_secs]; [split; [reflexivity|split; [cbn; lia | constructor]]|].
  destruct (make_tract desc _ idx ts) as [t|e0] eqn:E; cbn [bind]; [|exact (make_tract_raises _ _ _ _ _ HD E)].
  specialize (IH (S idx)). destruct (construct_secs desc twprge rest within (S idx) ts) as [[[tl wi] n]|e1]; cbn [bind]; [|exact IH].
  destruct IH as (L & N & F). cbn [length]. split; [lia|]. split; [lia|].
  assert (F' : Forall (fun i => idx <= i < n) wi) by (eapply Forall_impl; [|exact F]; cbn; intros; lia).
  destruct within; [constructor; [lia | exact F'] | exact F'].
Qed.

Lemma construct_tracts_spec cu ts : ts_ok ts -> forall tcs idx,
  match construct_tracts tcs cu idx ts with
  | Ok r => Forall (fun i => idx <= i < idx + length (fst r)) (snd r)
  | Raise e => e = OutOfFuel
  end.
Proof.
  intros HD. induction tcs as [|c rest IH]; intros idx; cbn [construct_tracts]; [constructor|].
  destruct (if cu then cleanup_desc (tc_desc c) else Ok (tc_desc c)) as [desc|e0] eqn:E0; cbn [bind]; [|destruct cu; [exact (cleanup_desc_raises _ _ E0) | discriminate]].
  pose proof (construct_secs_spec desc (tc_twprge c) (tc_within c) ts HD (tc_sec c) idx) as K.
  destruct (construct_secs desc _ _ _ idx ts) as [[[t1 w1] n]|e1]; cbn [bind]; [|exact K]. destruct K as (L & N & F).
  specialize (IH n). destruct (construct_tracts rest cu n ts) as [r2|e2]; cbn [bind]; [|exact IH]. cbn [fst snd]. rewrite app_length.
  apply Forall_app. split; eapply Forall_impl; try eassumption; cbn; intros; lia.
Qed.

Theorem finish_parse_raises st sw cu ts ptext layout' e : ts_ok ts -> finish_parse st sw cu ts ptext layout' = Raise e -> e = OutOfFuel.
Proof.
  intros HD. unfold finish_parse. intros H.
  destruct (if sw then rebuild_sec_within (ps_tc st) (ps_unused st) else Ok (ps_tc st, ps_unused st)) as [rs|e0] eqn:E0; cbn [bind] in H.
  2:{ injection H as <-. destruct sw; [exact (rebuild_sec_within_raises _ _ _ E0) | discriminate]. }
  pose proof (construct_tracts_spec cu ts HD (fst rs) 0) as K.
  destruct (construct_tracts (fst rs) cu 0 ts) as [ct|e1]; cbn [bind] in H; [|injection H as <-; exact K].
  destruct (map_py _ (snd ct)) as [wf|e2] eqn:E2; cbn [bind] in H; [discriminate|]. injection H as <-. exfalso.
  refine (map_py_raises _ (fun _ => False) _ _ _ E2). intros i e' Hi Hr.
  pose proof (proj1 (Forall_forall _ _) K i Hi) as Hb. cbn in Hb. destruct (nth_error (fst ct) i) eqn:En; [discriminate|].
  apply nth_error_None in En. lia.
Qed.

(* ---------------- SecFinder ---------------- *)
Definition sm_from (text : str) (m : smatch) : Prop :=
  sm_val m <> [] /\ exists x, In x (finditer multisec_regex multisec_regex_ng text) /\ sm_start m = mstart x /\ sm_end m = mend x.

Lemma is_multi_sec_ok text x : In x (finditer multisec_regex multisec_regex_ng text) -> exists b, is_multi_sec text x = Ok b.
Proof.
  intros Hx. unfold is_multi_sec, is_multi.
  destruct (finditer_group_set _ _ _ _ (mg_num sec_groups) Hx) as (v & Hv); [vm_compute; reflexivity | cbv; repeat constructor|].
  destruct (is_some (group text x (mg_num_rightmost sec_groups))); [eexists; reflexivity|]. rewrite Hv. eexists. reflexivity.
Qed.

Lemma sf_loop_spec text layout nc : forall ms acc ln,
  incl ms (finditer multisec_regex multisec_regex_ng text) -> Forall (sm_from text) (sf_matches acc) ->
  match sf_loop text layout nc ms acc ln with
  | Ok r => Forall (sm_from text) (sf_matches (fst r))
  | Raise e => e = OutOfFuel
  end.
Proof.
  induction ms as [|x t IH]; intros acc ln Hin F; cbn [sf_loop]; [exact F|].
  assert (Ht : incl t (finditer multisec_regex multisec_regex_ng text)) by (intros y Hy; exact (Hin y (or_intror Hy))).
  pose proof (Hin x (or_introl eq_refl)) as Hx.
  destruct (sec_unpacker (group0 text x)) as [u|e0] eqn:Eu; cbn [bind]; [|exact (sec_unpacker_total _ _ Eu)].
  pose proof (sec_unpacker_match_nonempty text x u Hx Eu) as Hne. cbv zeta.
  match goal with |- context [if negb ?c then _ else _] => destruct c end; cbn [negb].
  - destruct (is_multi_sec_ok text x Hx) as (b & ->). cbn [bind].
    destruct b; apply IH; try exact Ht; cbn [sf_matches]; (apply Forall_app; split; [exact F|]); (constructor; [|constructor]);
      (split; [exact Hne | exists x; cbn [sm_start sm_end]; auto]).
  - destruct (su_list u) as [|one [|two r]] eqn:El; [contradiction| |]; cbn [bind]; apply IH; try exact Ht; exact F.
Qed.

Lemma sec_finder_pass_spec text layout rc acc0 :
  Forall (sm_from text) (sf_matches acc0) ->
  match sec_finder_pass text layout rc acc0 with
  | Ok r => Forall (sm_from text) (sf_matches (fst r))
  | Raise e => e = OutOfFuel
  end.
Proof. intros F. unfold sec_finder_pass. apply sf_loop_spec; [apply incl_refl | destruct rc; exact F]. Qed.

Theorem sec_finder_spec text layout rc :
  match sec_finder text layout rc with
  | Ok f => Forall (sm_from text) (sf_matches f)
  | Raise e => e = OutOfFuel
  end.
Proof.
  unfold sec_finder. set (lay := match layout with Some l => l | None => deduce_layout text end).
  pose proof (sec_finder_pass_spec text lay rc (mk_sfinder [] [] []) (Forall_nil _)) as K1.
  destruct (sec_finder_pass text lay rc _) as [[f1 n1]|e1]; cbn [bind]; [|exact K1]. cbn [fst] in K1.
  destruct (sf_matches f1) as [|m ms] eqn:Em; [|rewrite <- Em in K1; exact K1].
  destruct rc as [b| |]; try (rewrite Em; constructor).
  destruct (layout_in lay _); [|rewrite Em; constructor].
  pose proof (sec_finder_pass_spec text lay RC_second f1 ltac:(rewrite Em; constructor)) as K2.
  destruct (sec_finder_pass text lay RC_second f1) as [[f2 n2]|e2]; cbn [bind]; [|exact K2]. cbn [fst] in K2.
  destruct (sf_matches f2) as [|m2 ms2] eqn:Em2; [rewrite Em2; constructor|]. cbn [sf_matches]. exact K2.
Qed.

(* ---------------- the marker walk ---------------- *)
Lemma get_next_twprge_ws c : cp_ws (get_next_twprge c) = cp_ws c.
Proof. unfold get_next_twprge. destruct (negb (cp_ltu c) && _); cbn [set_flags cp_wt_list]; destruct (cp_wt_list c); reflexivity. Qed.

Lemma get_next_sec_ws c : cp_ws (get_next_sec c) <> None.
Proof. unfold get_next_sec. destruct (negb (cp_lsu c) && _); cbn [set_flags cp_ws_list]; destruct (cp_ws_list c); discriminate. Qed.

Lemma prep_new_tract_spec c block :
  match prep_new_tract c block with
  | Ok c' => cp_ws c' <> None
  | Raise e => e = OutOfFuel \/ (e = TypeError /\ cp_ws c = None)
  end.
Proof.
  unfold prep_new_tract. destruct (cleanup_desc block) as [d|e0] eqn:E; cbn [bind]; [|left; exact (cleanup_desc_raises _ _ E)].
  unfold stage_new_tract. destruct (cp_ws c); cbn [bind]; [discriminate | right; split; reflexivity].
Qed.

Definition keys_ok (md : list (nat * mkind)) (ms : list nat) : Prop := forall p, In p ms -> md_get p md <> None.
Definition quiet (md : list (nat * mkind)) (q : nat) : Prop := md_get q md <> Some SEC_START /\ md_get q md <> Some SEC_END.

Lemma walk_safe txt sd md : forall ms c e, keys_ok md ms -> cp_ws c <> None -> walk txt sd md ms c = Raise e -> e = OutOfFuel.
Proof.
  induction ms as [|p rest IH]; intros c e HK Hc H; cbn [walk] in H; [discriminate|].
  assert (HKr : keys_ok md rest) by (intros q Hq; exact (HK q (or_intror Hq))).
  assert (Hn : In (match rest with q :: _ => q | [] => p end) (p :: rest)) by (destruct rest; [left; reflexivity | right; left; reflexivity]).
  destruct (md_get p md) as [mt|] eqn:Ep; [|exfalso; exact (HK p (or_introl eq_refl) Ep)].
  destruct (md_get (match rest with q :: _ => q | [] => p end) md) as [nmt|] eqn:En; [|exfalso; exact (HK _ Hn En)].
  assert (Gprep : forall blk, (do c' <- prep_new_tract c blk; walk txt sd md rest c') = Raise e -> e = OutOfFuel).
  { intros blk K. pose proof (prep_new_tract_spec c blk) as S. destruct (prep_new_tract c blk) as [c'|e0]; cbn [bind] in K.
    - exact (IH _ _ HKr S K).
    - injection K as <-. destruct S as [S|[_ S]]; [exact S | contradiction]. }
  destruct mt; try (apply (IH _ _ HKr) in H; [exact H|]; rewrite ?get_next_twprge_ws; try exact Hc; apply get_next_sec_ws);
    (destruct (sd && _); [exact (Gprep _ H)|]; destruct (negb sd && _); [exact (Gprep _ H)|]; refine (IH _ _ HKr _ H); exact Hc).
Qed.

Definition walk_fault (md : list (nat * mkind)) (ms : list nat) : Prop :=
  exists pre p post, ms = pre ++ p :: post /\ md_get p md = Some SEC_END /\ Forall (quiet md) pre.

Lemma walk_raises txt sd md : forall ms c e, keys_ok md ms -> walk txt sd md ms c = Raise e ->
  e = OutOfFuel \/ (e = TypeError /\ cp_ws c = None /\ (sd = true -> walk_fault md ms)).
Proof.
  induction ms as [|p rest IH]; intros c e HK H; cbn [walk] in H; [discriminate|].
  assert (HKr : keys_ok md rest) by (intros q Hq; exact (HK q (or_intror Hq))).
  assert (Hn : In (match rest with q :: _ => q | [] => p end) (p :: rest)) by (destruct rest; [left; reflexivity | right; left; reflexivity]).
  destruct (md_get p md) as [mt|] eqn:Ep; [|exfalso; exact (HK p (or_introl eq_refl) Ep)].
  destruct (md_get (match rest with q :: _ => q | [] => p end) md) as [nmt|] eqn:En; [|exfalso; exact (HK _ Hn En)].
  (* continuing past a quiet marker *)
  assert (Gcont : forall c1, cp_ws c1 = cp_ws c -> mt <> SEC_START -> (sd = true -> mt <> SEC_END) -> walk txt sd md rest c1 = Raise e ->
                  e = OutOfFuel \/ (e = TypeError /\ cp_ws c = None /\ (sd = true -> walk_fault md (p :: rest)))).
  { intros c1 Hc1 N1 N2 K. destruct (IH _ _ HKr K) as [L|(L1 & L2 & L3)]; [left; exact L|]. right. split; [exact L1|]. split; [congruence|].
    intros Hsd. destruct (L3 Hsd) as (pre & q & post & -> & Hq & Fq). exists (p :: pre), q, post. split; [reflexivity|]. split; [exact Hq|].
    constructor; [|exact Fq]. unfold quiet. rewrite Ep. split; intros E; injection E as E; [exact (N1 E) | exact (N2 Hsd E)]. }
  (* staging a tract here *)
  assert (Gprep : forall blk, (sd = true -> mt = SEC_END) -> (do c' <- prep_new_tract c blk; walk txt sd md rest c') = Raise e ->
                  e = OutOfFuel \/ (e = TypeError /\ cp_ws c = None /\ (sd = true -> walk_fault md (p :: rest)))).
  { intros blk Hm K. pose proof (prep_new_tract_spec c blk) as S. destruct (prep_new_tract c blk) as [c'|e0]; cbn [bind] in K.
    - left. exact (walk_safe _ _ _ _ _ _ HKr S K).
    - injection K as <-. destruct S as [S|[S1 S2]]; [left; exact S|]. right. split; [exact S1|]. split; [exact S2|].
      intros Hsd. exists [], p, rest. split; [reflexivity|]. split; [rewrite Ep, (Hm Hsd); reflexivity | constructor]. }
  destruct mt.
  - (* TEXT_START *) destruct sd; cbn [andb negb mk_eqb] in H.
    + (refine (Gcont _ _ _ _ H); [reflexivity | discriminate | discriminate]).
    + destruct (mk_eqb nmt SEC_START); [exact (Gprep _ ltac:(discriminate) H) | (refine (Gcont _ _ _ _ H); [reflexivity | discriminate | discriminate])].
  - (* TEXT_END *) (refine (Gcont _ _ _ _ H); [reflexivity | discriminate | discriminate]).
  - (* SEC_START *) left. exact (walk_safe _ _ _ _ _ _ HKr (get_next_sec_ws c) H).
  - (* SEC_END *) destruct sd; cbn [andb negb mk_eqb] in H.
    + exact (Gprep _ (fun _ => eq_refl) H).
    + destruct (mk_eqb nmt SEC_START); [exact (Gprep _ ltac:(discriminate) H) | (refine (Gcont _ _ _ _ H); [reflexivity | discriminate | discriminate])].
  - (* TWPRGE_START *) exact (Gcont _ (get_next_twprge_ws c) ltac:(discriminate) ltac:(discriminate) H).
  - (* TWPRGE_END *) destruct sd; cbn [andb negb mk_eqb] in H.
    + (refine (Gcont _ _ _ _ H); [reflexivity | discriminate | discriminate]).
    + destruct (mk_eqb nmt SEC_START); [exact (Gprep _ ltac:(discriminate) H) | (refine (Gcont _ _ _ _ H); [reflexivity | discriminate | discriminate])].
Qed.

(* ---------------- where the markers come from ---------------- *)
Definition setw (d : list (nat * mkind)) (w : nat * mkind) : list (nat * mkind) := md_set (fst w) (snd w) d.
Definition sec_writes (m : smatch) : list (nat * mkind) := [(sm_start m, SEC_START); (sm_end m, SEC_END)].
Definition twp_writes (m : tmatch) : list (nat * mkind) := [(tm_start m, TWPRGE_START); (tm_end m, TWPRGE_END)].

Lemma fold_flat {M} (f : M -> list (nat * mkind)) : forall l d,
  fold_left (fun d m => fold_left setw (f m) d) l d = fold_left setw (flat_map f l) d.
Proof. induction l as [|m l IH]; intros d; [reflexivity|]. cbn [fold_left flat_map]. rewrite fold_left_app. apply IH. Qed.

Lemma populate_writes text secs twps :
  populate_markers text secs twps =
  fold_left setw ([(0, TEXT_START); (length text, TEXT_END)] ++ flat_map sec_writes secs ++ flat_map twp_writes twps) [].
Proof. unfold populate_markers. rewrite !fold_left_app, <- !fold_flat. reflexivity. Qed.

Lemma md_get_set k k' v d : md_get k (md_set k' v d) = if k =? k' then Some v else md_get k d.
Proof.
  induction d as [|[k0 v0] t IH]; cbn [md_set md_get]; [reflexivity|].
  destruct (k' =? k0) eqn:E0; cbn [md_get].
  - apply Nat.eqb_eq in E0. subst k0. destruct (k =? k'); reflexivity.
  - rewrite IH. destruct (k =? k0) eqn:E1; [|reflexivity]. apply Nat.eqb_eq in E1. subst k0.
    rewrite (Nat.eqb_sym k k'), E0. reflexivity.
Qed.

Lemma get_fold : forall ws d k,
  md_get k (fold_left setw ws d) = match find (fun w => fst w =? k) (rev ws) with Some w => Some (snd w) | None => md_get k d end.
Proof.
  induction ws as [|w ws IH] using rev_ind; intros d k; [reflexivity|].
  rewrite fold_left_app, rev_app_distr. cbn [fold_left rev app find]. unfold setw at 1. rewrite md_get_set, (Nat.eqb_sym k (fst w)).
  destruct (fst w =? k); [reflexivity | apply IH].
Qed.

Lemma md_get_keys : forall d k, md_get k d <> None <-> In k (map fst d).
Proof.
  induction d as [|[k0 v0] t IH]; intros k; cbn [md_get map In fst]; [split; [congruence | intros []]|].
  destruct (k =? k0) eqn:E; [apply Nat.eqb_eq in E; subst; split; [auto | discriminate]|].
  rewrite IH. apply Nat.eqb_neq in E. split; [auto | intros [K|K]; [congruence | exact K]].
Qed.

(* insertion sort: same elements, ascending *)
Lemma insert_in x : forall l y, In y (insert_nat x l) <-> y = x \/ In y l.
Proof.
  induction l as [|a l IH]; intros y; cbn [insert_nat In]; [split; intros [H|H]; auto|].
  destruct (x <=? a); cbn [In]; [split; intros [H|H]; auto|]. rewrite IH. split; intros [H|[H|H]]; auto.
Qed.

Lemma sort_in : forall l y, In y (sort_nat l) <-> In y l.
Proof. induction l as [|a l IH]; intros y; cbn [sort_nat fold_right In]; [reflexivity|]. fold (sort_nat l). rewrite insert_in, IH. split; intros [H|H]; auto. Qed.

Fixpoint lsorted (l : list nat) : Prop := match l with [] => True | x :: t => (forall y, In y t -> x <= y) /\ lsorted t end.

Lemma insert_sorted x : forall l, lsorted l -> lsorted (insert_nat x l).
Proof.
  induction l as [|a l IH]; intros H; cbn [insert_nat]; [split; [intros y []|exact I]|]. destruct H as [H1 H2].
  destruct (x <=? a) eqn:E; cbn [lsorted].
  - apply Nat.leb_le in E. split; [|split; assumption]. intros y [<-|Hy]; [exact E | specialize (H1 y Hy); lia].
  - apply Nat.leb_gt in E. split; [|exact (IH H2)]. intros y Hy. apply insert_in in Hy. destruct Hy as [->|Hy]; [lia | exact (H1 y Hy)].
Qed.

Lemma sort_sorted : forall l, lsorted (sort_nat l).
Proof. induction l as [|a l IH]; [exact I|]. cbn [sort_nat fold_right]. fold (sort_nat l). apply insert_sorted. exact IH. Qed.

Lemma sorted_before : forall pre p post k, lsorted (pre ++ p :: post) -> In k (pre ++ p :: post) -> k < p -> In k pre.
Proof.
  induction pre as [|a pre IH]; intros p post k HS Hin Hlt; cbn [app] in *.
  - exfalso. destruct HS as [H1 _]. destruct Hin as [<-|Hin]; [lia | specialize (H1 k Hin); lia].
  - destruct Hin as [<-|Hin]; [left; reflexivity|]. right. exact (IH p post k (proj2 HS) Hin Hlt).
Qed.

(* a Twp/Rge match that starts or ends exactly where a section match starts *)
Definition glued (chunk : str) : Prop :=
  exists tm sm, In tm (finditer twprge_regex twprge_regex_ng chunk) /\ In sm (finditer multisec_regex multisec_regex_ng chunk) /\
                (mstart tm = mstart sm \/ mend tm = mstart sm).

Definition tm_from (text : str) (m : tmatch) : Prop :=
  exists x, In x (finditer twprge_regex twprge_regex_ng text) /\ tm_start m = mstart x /\ tm_end m = mend x.

Lemma finditer_nonempty_span r ng t x : 1 <= minw r -> In x (finditer r ng t) -> mstart x < mend x.
Proof.
  intros Hw Hx. unfold finditer, finditer_pe in Hx. replace (length t <? 0) with false in Hx by reflexivity. unfold clip in Hx. rewrite Nat.min_id, Nat.min_0_l in Hx.
  destruct (finditer_loop_in r ng t _ _ _ x (Nat.le_0_l _) Hx) as (fuel' & p' & ma' & Hp & Hs).
  destruct (st_at_wf_text t p' Hp) as [W T].
  destruct (scan_full r ng fuel' ma' _ x W Hs) as (s' & q & W' & T' & Hin & _ & H1 & H2).
  destruct (ms_extends _ _ _ _ Hin) as (mid & E). pose proof (ms_minw _ _ _ _ _ Hin E) as L. destruct E as (_ & _ & I). lia.
Qed.

Theorem walk_fault_glued chunk secs twps :
  Forall (sm_from chunk) secs -> Forall (tm_from chunk) twps ->
  walk_fault (populate_markers chunk secs twps) (sort_nat (map fst (populate_markers chunk secs twps))) -> glued chunk.
Proof.
  intros FS FT (pre & p & post & Eml & Hp & Fq). set (md := populate_markers chunk secs twps) in *.
  set (W := [(0, TEXT_START); (length chunk, TEXT_END)] ++ flat_map sec_writes secs ++ flat_map twp_writes twps).
  assert (EW : md = fold_left setw W []) by apply populate_writes.
  (* every value comes from a write with that key *)
  assert (PV : forall k v, md_get k md = Some v -> In (k, v) W).
  { intros k v H. rewrite EW, get_fold in H. destruct (find _ (rev W)) as [w|] eqn:Ef; [|discriminate]. injection H as <-.
    apply find_some in Ef. destruct Ef as [Hin Hk]. apply Nat.eqb_eq in Hk. subst k. apply in_rev in Hin. destruct w; exact Hin. }
  (* the section match that ends at p *)
  assert (HS : exists sm, In sm secs /\ sm_end sm = p).
  { apply PV in Hp. unfold W in Hp. apply in_app_or in Hp. destruct Hp as [[Hp|[Hp|[]]]|Hp]; try discriminate.
    apply in_app_or in Hp. destruct Hp as [Hp|Hp]; apply in_flat_map in Hp; destruct Hp as (m & Hm & Hw).
    - destruct Hw as [Hw|[Hw|[]]]; [discriminate|]. injection Hw as <-. exists m. auto.
    - destruct Hw as [Hw|[Hw|[]]]; discriminate. }
  destruct HS as (sm & Hsm & <-).
  destruct (proj1 (Forall_forall _ _) FS sm Hsm) as (_ & x & Hx & S1 & S2).
  assert (Hlt : sm_start sm < sm_end sm) by (rewrite S1, S2; apply (finditer_nonempty_span multisec_regex multisec_regex_ng chunk x); [vm_compute; lia | exact Hx]).
  set (k := sm_start sm) in *.
  (* the last write at k is a section or Twp/Rge write *)
  assert (HL : exists v, md_get k md = Some v /\ In (k, v) (flat_map sec_writes secs ++ flat_map twp_writes twps)).
  { rewrite EW, get_fold. unfold W. rewrite rev_app_distr.
    assert (Hex : In (k, SEC_START) (flat_map sec_writes secs ++ flat_map twp_writes twps)).
    { apply in_or_app. left. apply in_flat_map. exists sm. split; [exact Hsm | left; reflexivity]. }
    destruct (find (fun w => fst w =? k) (rev (flat_map sec_writes secs ++ flat_map twp_writes twps))) as [w|] eqn:Ef.
    - pose proof (find_some _ _ Ef) as [Hin Hk]. apply Nat.eqb_eq in Hk. apply in_rev in Hin.
      exists (snd w). split.
      + generalize (rev [(0, TEXT_START); (length chunk, TEXT_END)]) as tailw. intros tailw.
        assert (G : forall (l1 l2 : list (nat * mkind)) w0, find (fun w => fst w =? k) l1 = Some w0 -> find (fun w => fst w =? k) (l1 ++ l2) = Some w0).
        { induction l1 as [|a l1 IHl]; intros l2 w0 Hf; [discriminate|]. cbn [find app] in *. destruct (fst a =? k); [exact Hf | exact (IHl _ _ Hf)]. }
        rewrite (G _ tailw _ Ef). reflexivity.
      + destruct w as [kw vw]. cbn [fst snd] in *. subst kw. exact Hin.
    - exfalso. apply in_rev in Hex. exact (Bool.eq_true_false_abs _ (Nat.eqb_refl k) (find_none _ _ Ef _ Hex)). }
  destruct HL as (v & Hv & Hin).
  (* k stands before p in the sorted marker list, hence is quiet *)
  assert (Hk : In k pre).
  { apply (sorted_before pre (sm_end sm) post k); [rewrite <- Eml; apply sort_sorted | | exact Hlt].
    rewrite <- Eml. apply sort_in. apply md_get_keys. rewrite Hv. discriminate. }
  destruct (proj1 (Forall_forall _ _) Fq k Hk) as [Q1 Q2]. rewrite Hv in Q1, Q2.
  apply in_app_or in Hin. destruct Hin as [Hin|Hin]; apply in_flat_map in Hin; destruct Hin as (m & Hm & Hw).
  - exfalso. destruct Hw as [Hw|[Hw|[]]]; injection Hw as _ <-; [exact (Q1 eq_refl) | exact (Q2 eq_refl)].
  - destruct (proj1 (Forall_forall _ _) FT m Hm) as (y & Hy & T1 & T2). exists y, x. split; [exact Hy|]. split; [exact Hx|].
    destruct Hw as [Hw|[Hw|[]]]; injection Hw as Hw _; [left | right]; congruence.
Qed.

(* ---------------- the chunk parser ---------------- *)
Lemma trf_loop_from txt layout mc_ns mc_ew : forall ms j acc r,
  incl ms (finditer twprge_regex twprge_regex_ng txt) -> Forall (tm_from txt) (tf_matches acc) ->
  trf_loop txt layout mc_ns mc_ew ms j acc = Ok r -> Forall (tm_from txt) (tf_matches r).
Proof.
  induction ms as [|x t IH]; intros j acc r Hin F H; cbn [trf_loop] in H; [injection H as <-; exact F|].
  assert (Ht : incl t (finditer twprge_regex twprge_regex_ng txt)) by (intros y Hy; exact (Hin y (or_intror Hy))).
  assert (Fx : forall v, Forall (tm_from txt) (tf_matches acc ++ [mk_tmatch v (mstart x) (mend x)])).
  { intros v. apply Forall_app. split; [exact F|]. constructor; [|constructor]. exists x. split; [exact (Hin x (or_introl eq_refl)) | split; reflexivity]. }
  destruct (unpack_short txt x mc_ns mc_ew) as [v|e0] eqn:E; [|destruct (layout_in layout _); discriminate].
  destruct (layout_in layout _); cbn [bind] in H; [(refine (IH _ _ _ Ht _ H); exact (Fx v))|].
  match type of H with (if ?c then _ else _) = _ => destruct c end; [(refine (IH _ _ _ Ht _ H); exact (Fx v)) | (refine (IH _ _ _ Ht _ H); exact F)].
Qed.

Lemma twprge_finder_from txt layout mc_ns mc_ew r : twprge_finder txt layout mc_ns mc_ew = Ok r -> Forall (tm_from txt) (tf_matches r).
Proof. unfold twprge_finder. apply trf_loop_from; [apply incl_refl | constructor]. Qed.

Lemma populate_keys_ok chunk secs twps : keys_ok (populate_markers chunk secs twps) (sort_nat (map fst (populate_markers chunk secs twps))).
Proof. intros p Hp. apply (proj1 (sort_in _ _)) in Hp. apply md_get_keys. exact Hp. Qed.

Definition chunk_err (chunk : str) (e : exn) : Prop := ok_err e \/ (e = TypeError /\ glued chunk).

(* what follows the walk: putting back unused working values, flags, sec_within *)
Lemma chunk_tail_raises (c6 : cp) (sw : bool) e :
  (if sw then
     do r <- rebuild_sec_within (cp_tc c6) (cp_unused c6);
     Ok (mk_cp (cp_w c6) (cp_wl c6) (cp_e c6) (cp_el c6) (snd r) (fst r) (cp_wt_list c6) (cp_ws_list c6) (cp_wt c6) (cp_ws c6) (cp_ltu c6) (cp_lsu c6))
   else Ok c6) = Raise e -> e = OutOfFuel.
Proof.
  destruct sw; [|discriminate]. intros H. apply bind_raise in H. destruct H as [H|(r & _ & H)]; [exact (rebuild_sec_within_raises _ _ _ H) | discriminate].
Qed.

Theorem parse_chunk_with_raises chunk lay px e : parse_chunk_with chunk lay px = Raise e -> chunk_err chunk e.
Proof.
  unfold parse_chunk_with. intros H.
  apply bind_raise in H. destruct H as [H|(tf & Etf & H)]; [left; right; exact (twprge_finder_raises _ _ _ _ _ H)|].
  pose proof (sec_finder_spec chunk (Some lay) (px_require_colon px)) as KS.
  apply bind_raise in H. destruct H as [H|(sf & Esf & H)]; [rewrite H in KS; left; left; exact KS|]. rewrite Esf in KS.
  pose proof (twprge_finder_from _ _ _ _ _ Etf) as KT. cbv zeta in H.
  destruct (str_eqb lay COPY_ALL).
  - (* _parse_copyall never raises: the first working section is a non-empty list *)
    exfalso. apply bind_raise in H. destruct H as [H|(sec1 & _ & H)]; [|discriminate].
    unfold get_next_sec in H. cbn [cp_lsu cp_ws negb andb set_flags cp_ws_list] in H.
    destruct (sf_matches sf) as [|m ms] eqn:Em; cbn [map] in H; cbn [cp_ws] in H; [discriminate|].
    inversion KS as [|? ? (Hne & _) _]; subst. destruct (sm_val m); [contradiction | discriminate].
  - set (md := populate_markers chunk (sf_matches sf) (tf_matches tf)) in *.
    set (sd := layout_in lay [TRS_DESC; S_DESC_TR]) in *.
    apply bind_raise in H. destruct H as [H|(c3 & _ & H)].
    + destruct (walk_raises _ _ _ _ _ _ (populate_keys_ok chunk (sf_matches sf) (tf_matches tf)) H) as [K|(K1 & K2 & K3)]; [left; left; exact K|].
      right. split; [exact K1|]. destruct sd eqn:Esd.
      * exact (walk_fault_glued chunk _ _ KS KT (K3 eq_refl)).
      * exfalso. cbn [negb] in K2. destruct (negb (layout_in lay [TRS_DESC; TR_DESC_S])); [rewrite get_next_twprge_ws in K2|]; exact (get_next_sec_ws _ K2).
    + left. left. exact (chunk_tail_raises _ _ _ H).
Qed.

Theorem parse_chunk_raises chunk layout px e : parse_chunk chunk layout px = Raise e -> chunk_err chunk e.
Proof.
  unfold parse_chunk. intros H. apply bind_raise in H. destruct H as [H|(c & _ & H)].
  - destruct (match layout with Some l => _ | None => _ end) as [l|]; [exact (parse_chunk_with_raises _ _ _ _ H)|].
    apply bind_raise in H. destruct H as [H|(tf & Etf & H)]; [left; right; exact (twprge_finder_raises _ _ _ _ _ H)|].
    pose proof (sec_finder_spec chunk None (px_require_colon px)) as KS.
    apply bind_raise in H. destruct H as [H|(sf & Esf & H)]; [rewrite H in KS; left; left; exact KS|]. cbv zeta in H.
    apply bind_raise in H. destruct H as [H|(c3 & _ & H)].
    + left. left. refine (walk_safe _ _ _ _ _ _ (populate_keys_ok chunk (sf_matches sf) (tf_matches tf)) _ H).
      rewrite get_next_twprge_ws. apply get_next_sec_ws.
    + left. left. exact (chunk_tail_raises _ _ _ H).
  - destruct (cp_tc c); [|discriminate].
    destruct (match layout with Some l => _ | None => _ end) as [l|]; [destruct (str_eqb l COPY_ALL); [discriminate|]|]; exact (parse_chunk_with_raises _ _ _ _ H).
Qed.

Definition chunks_err (chunks : list str) (e : exn) : Prop := ok_err e \/ (e = TypeError /\ exists chunk, In chunk chunks /\ glued chunk).

Lemma parse_chunks_raises lay px : forall chunks st e, parse_chunks chunks lay px st = Raise e -> chunks_err chunks e.
Proof.
  induction chunks as [|ch rest IH]; intros st e H; cbn [parse_chunks] in H; [discriminate|].
  apply bind_raise in H. destruct H as [H|(c & _ & H)].
  - destruct (parse_chunk_raises _ _ _ _ H) as [K|[K1 K2]]; [left; exact K | right; split; [exact K1 | exists ch; split; [left; reflexivity | exact K2]]].
  - apply bind_raise in H. destruct H as [H|(gf & _ & H)]; [left; left; exact (gen_flags_chunk_raises _ _ H)|].
    destruct (IH _ _ H) as [K|(K1 & chunk & K2 & K3)]; [left; exact K | right; split; [exact K1 | exists chunk; split; [right; exact K2 | exact K3]]].
Qed.

(* the chunks a preprocessed text is cut into *)
Definition chunks_for (ptext : str) (layout : option str) (d : dflt) (seg : bool) : Py (list str * list (nat * str)) :=
  chunks_of seg ptext (match layout with Some l => l | None => deduce_layout ptext end) (d_mc_ns d) (d_mc_ew d).

Definition text_err (ptext : str) (layout : option str) (d : dflt) (seg : bool) (e : exn) : Prop :=
  ok_err e \/ (e = TypeError /\ exists ch chunk, chunks_for ptext layout d seg = Ok ch /\ In chunk (fst ch) /\ glued chunk).

Theorem parse_text_raises ptext fixed layout d cu rc seg sw ts e :
  ts_ok ts -> parse_text ptext fixed layout d cu rc seg sw ts = Raise e -> text_err ptext layout d seg e.
Proof.
  intros HD. unfold parse_text. cbv zeta. intros H.
  apply bind_raise in H. destruct H as [H|(ch & Ech & H)]; [left; exact (chunks_of_raises _ _ _ _ _ _ H)|].
  apply bind_raise in H. destruct H as [H|(st & _ & H)].
  - destruct (parse_chunks_raises _ _ _ _ _ H) as [K|(K1 & chunk & K2 & K3)]; [left; exact K|]. right. split; [exact K1|]. exists ch, chunk. auto.
  - left. left. exact (finish_parse_raises _ _ _ _ _ _ _ HD H).
Qed.

(* PLSSParser: for EVERY text and setting, nothing is raised but the documented default-direction errors -- unless, in one of the chunks
   the preprocessed text is cut into (the text itself without `segment`), a Twp/Rge match starts or ends exactly where a section match
   starts: the one situation in which `for sec in None` is reachable *)
Definition desc_err (text : str) (layout : option str) (d : dflt) (ocr seg : bool) (e : exn) : Prop :=
  ok_err e \/ (e = TypeError /\ exists pp, plss_preprocess text d ocr = Ok pp /\
                                exists ch chunk, chunks_for (fst pp) layout d seg = Ok ch /\ In chunk (fst ch) /\ glued chunk).

Theorem plss_parser_raises text layout d ocr cu rc seg sw ts e :
  ts_ok ts -> plss_parser text layout d ocr cu rc seg sw ts = Raise e -> desc_err text layout d ocr seg e.
Proof.
  intros HD. unfold plss_parser. intros H. apply bind_raise in H. destruct H as [H|(pp & Epp & H)].
  - left. exact (plss_preprocess_raises _ _ _ _ H).
  - destruct (parse_text_raises _ _ _ _ _ _ _ _ _ _ HD H) as [K|(K1 & K2)]; [left; exact K | right; split; [exact K1 | exists pp; auto]].
Qed.

Lemma unpack_any_scrubber_total : forall rg t x dns dew mcns mcew e,
  In rg (PLSS_OCR_SCRUBBER :: PLSS_SCRUBBER_REGEXES) -> In x (finditer (fst (fst (fst rg))) (snd (fst (fst rg))) t) ->
  unpack_twprge (snd (fst rg)) t x dns dew (snd rg) mcns mcew = Raise e -> e = DefaultNSError \/ e = DefaultEWError.
Proof.
  intros [[[r ng] G] ocr] t x dns dew mcns mcew e Hin Hx H. cbn [fst snd] in *. destruct scrubbers_static as (S1 & S2 & _).
  refine (unpack_twprge_total r ng G _ _ _ _ _ _ _ _ _ Hx H). destruct Hin as [E|Hin]; [rewrite E in S1; exact S1 | exact (proj1 (Forall_forall _ _) S2 _ Hin)].
Qed.
