(* Proofs/C03/Total.v -- parts of totality that hold for all texts: at least one tract component,
   tract count, documented rejection of illegal default directions. *)
From Coq Require Import List NArith ZArith Arith Bool Lia.
From Coq Require String.
From PyTRS Require Import Engine.Regex Gen.Patterns PyRt.Str Gen.Tables Model.Trs Model.Unpack Model.TractPre
     Model.Aliquot Model.TractParse Model.PlssPre Model.PlssParse Proofs.C11.CopyAll Proofs.C20.Modes.
Import ListNotations.
Import String.StringSyntax.
Local Open Scope string_scope.

Definition nsecs (tcs : list tcomp) : nat := fold_right (fun c n => length (tc_sec c) + n) 0 tcs.

Lemma construct_tracts_count : forall tcs cu idx ts r,
  construct_tracts tcs cu idx ts = Ok r -> length (fst r) = nsecs tcs.
Proof.
  induction tcs as [|c rest IH]; intros cu idx ts r H; cbn [construct_tracts] in H; [injection H as <-; reflexivity|].
  destruct (if cu then cleanup_desc (tc_desc c) else Ok (tc_desc c)) as [desc|e]; cbn [bind] in H; [|discriminate].
  destruct (construct_secs desc (tc_twprge c) (tc_sec c) (tc_within c) idx ts) as [[[t1 w1] n]|e] eqn:E1; cbn [bind] in H; [|discriminate].
  destruct (construct_tracts rest cu n ts) as [r2|e] eqn:E2; cbn [bind] in H; [|discriminate].
  injection H as <-. cbn [fst nsecs fold_right]. rewrite app_length. rewrite (IH _ _ _ _ E2).
  pose proof (construct_secs_length _ _ _ _ _ _ _ E1) as L. cbn [fst] in L. rewrite L. reflexivity.
Qed.

Lemma rebuild_keeps_nonempty tcs unused r : rebuild_sec_within tcs unused = Ok r -> tcs <> [] -> fst r <> [] /\ nsecs (fst r) = nsecs tcs.
Proof.
  destruct tcs as [|c [|c2 t]]; intros H Hne; [congruence| |cbn in H; injection H as <-; split; [discriminate|reflexivity]].
  destruct (rebuild_sec_within_one _ _ _ H) as (_ & desc & _ & Hf). rewrite Hf. split; [discriminate|reflexivity].
Qed.

(* every successful parse has exactly as many tracts as the staged components name sections,
   and there is at least one staged component *)
Theorem finish_parse_count st sw cu ts ptext layout' p :
  ps_tc st <> [] -> finish_parse st sw cu ts ptext layout' = Ok p ->
  exists tcs, tcs <> [] /\ length (po_tracts p) = nsecs tcs /\ nsecs tcs = nsecs (ps_tc st).
Proof.
  intros Hne. unfold finish_parse.
  destruct (if sw then rebuild_sec_within (ps_tc st) (ps_unused st) else Ok (ps_tc st, ps_unused st)) as [rs|e] eqn:Ers; cbn [bind]; [|discriminate].
  destruct (construct_tracts (fst rs) cu 0 ts) as [ct|e] eqn:Ect; cbn [bind]; [|discriminate].
  destruct (map_py _ (snd ct)) as [wf|e]; cbn [bind]; [|discriminate].
  intros H. injection H as <-. exists (fst rs).
  assert (K : fst rs <> [] /\ nsecs (fst rs) = nsecs (ps_tc st)).
  { destruct sw; [apply (rebuild_keeps_nonempty _ _ _ Ers Hne) | injection Ers as <-; split; [exact Hne | reflexivity]]. }
  destruct K as [K1 K2]. split; [exact K1|]. split; [|exact K2].
  unfold assemble. cbv zeta. cbn [po_tracts]. rewrite map_length. apply (construct_tracts_count _ _ _ _ _ Ect).
Qed.

Lemma chunks_of_nonempty seg ptext layout' a b ch : chunks_of seg ptext layout' a b = Ok ch -> fst ch <> [] \/ seg = true.
Proof. unfold chunks_of. destruct seg; [right; reflexivity|]. intros H. injection H as <-. left. discriminate. Qed.

Theorem plss_parser_tracts text layout d ocr cu rc sw ts p :
  plss_parser text layout d ocr cu rc false sw ts = Ok p ->
  exists tcs, tcs <> [] /\ length (po_tracts p) = nsecs tcs.
Proof.
  unfold plss_parser. destruct (plss_preprocess text d ocr) as [pp|e]; cbn [bind]; [|discriminate].
  unfold parse_text, chunks_of. cbn [bind fst snd].
  destruct (parse_chunks _ _ _ _) as [st|e] eqn:Epc; cbn [bind]; [|discriminate].
  intros H. assert (Hne : ps_tc st <> []) by (eapply parse_chunks_nonempty; [exact Epc | discriminate]).
  destruct (finish_parse_count _ _ _ _ _ _ _ Hne H) as (tcs & H1 & H2 & _). exists tcs. split; assumption.
Qed.

(* illegal default directions are rejected with the documented exception classes *)
Lemma unpack_twprge_bad_ns G t x dns dew ocr mcns mcew :
  mem_str (match dns with Some v => v | None => mcns end) MC_LEGAL_NS = false ->
  unpack_twprge G t x dns dew ocr mcns mcew = Raise DefaultNSError.
Proof. intros H. unfold unpack_twprge. rewrite H. reflexivity. Qed.

Lemma unpack_twprge_bad_ew G t x dns dew ocr mcns mcew :
  mem_str (match dns with Some v => v | None => mcns end) MC_LEGAL_NS = true ->
  mem_str (match dew with Some v => v | None => mcew end) MC_LEGAL_EW = false ->
  unpack_twprge G t x dns dew ocr mcns mcew = Raise DefaultEWError.
Proof. intros H1 H2. unfold unpack_twprge. rewrite H1, H2. reflexivity. Qed.
