(* Proofs/C18/Lists.v -- filter / _new_list_from_self, duplicates, grouping and
   construction paths of Model/Containers.v, for all lists. *)
From Coq Require Import List NArith ZArith Arith Bool Lia Permutation.
From PyTRS Require Import Engine.Regex PyRt.Str Model.Trs Model.Containers.
Import ListNotations.

Section Filter.
  Context {A : Type}.

  Fixpoint idx_of_mask (i : nat) (mask : list bool) : list nat :=
    match mask with
    | [] => []
    | b :: t => if b then i :: idx_of_mask (S i) t else idx_of_mask (S i) t
    end.

  Fixpoint sel (mask : list bool) (l : list A) : list A :=
    match mask, l with
    | b :: m, x :: t => if b then x :: sel m t else sel m t
    | _, _ => []
    end.
  Fixpoint unsel (mask : list bool) (l : list A) : list A :=
    match mask, l with
    | b :: m, x :: t => if b then unsel m t else x :: unsel m t
    | _, _ => l
    end.

  Lemma idx_of_mask_app : forall m1 m2 i,
    idx_of_mask i (m1 ++ m2) = idx_of_mask i m1 ++ idx_of_mask (i + length m1) m2.
  Proof.
    induction m1 as [|b m1 IH]; intros m2 i; simpl.
    - rewrite Nat.add_0_r. reflexivity.
    - rewrite IH. replace (S i + length m1) with (i + S (length m1)) by lia.
      destruct b; reflexivity.
  Qed.

  Lemma sel_app : forall m1 l1 m2 l2, length m1 = length l1 ->
    sel (m1 ++ m2) (l1 ++ l2) = sel m1 l1 ++ sel m2 l2.
  Proof.
    induction m1 as [|b m1 IH]; intros [|x l1] m2 l2 H; simpl in *; try discriminate; [reflexivity|].
    rewrite IH by lia. destruct b; reflexivity.
  Qed.
  Lemma unsel_app : forall m1 l1 m2 l2, length m1 = length l1 ->
    unsel (m1 ++ m2) (l1 ++ l2) = unsel m1 l1 ++ unsel m2 l2.
  Proof.
    induction m1 as [|b m1 IH]; intros [|x l1] m2 l2 H; simpl in *; try discriminate; [reflexivity|].
    rewrite IH by lia. destruct b; reflexivity.
  Qed.

  Lemma sel_map_filter (key : A -> bool) l : sel (map key l) l = filter key l.
  Proof. induction l as [|x t IH]; simpl; [reflexivity|]. rewrite IH. destruct (key x); reflexivity. Qed.
  Lemma unsel_map_filter (key : A -> bool) l : unsel (map key l) l = filter (fun x => negb (key x)) l.
  Proof. induction l as [|x t IH]; simpl; [reflexivity|]. rewrite IH. destruct (key x); reflexivity. Qed.

  Lemma indexes_where_mask (key : A -> bool) : forall l i, indexes_where key i l = idx_of_mask i (map key l).
  Proof. induction l as [|x t IH]; intros i; simpl; [reflexivity|]. rewrite IH. reflexivity. Qed.

  Lemma pop_at_app : forall (l : list A) x suffix, pop_at (length l) (l ++ x :: suffix) = l ++ suffix.
  Proof. induction l as [|y t IH]; intros; simpl; [reflexivity|]. rewrite IH. reflexivity. Qed.

  Lemma nth_error_mid : forall (l : list A) x suffix, nth_error (l ++ x :: suffix) (length l) = Some x.
  Proof. intros. rewrite nth_error_app2 by lia. rewrite Nat.sub_diag. reflexivity. Qed.

  Lemma last_split : forall (m : list bool) n, length m = S n -> exists m' b, m = m' ++ [b] /\ length m' = n.
  Proof.
    intros m n H. destruct (exists_last (l := m)) as (m' & b & E); [intros ->; discriminate|].
    exists m', b. split; [exact E|]. subst. rewrite app_length in H. simpl in H. lia.
  Qed.

  (* the loop of _new_list_from_self over the reversed index list of a mask *)
  Lemma nlfs_loop_mask (drop : bool) : forall l mask suffix new,
    length mask = length l ->
    nlfs_loop (rev (idx_of_mask 0 mask)) drop (l ++ suffix) new =
      Ok (new ++ rev (sel mask l), (if drop then unsel mask l else l) ++ suffix).
  Proof.
    induction l as [|x t IH] using rev_ind; intros mask suffix new Hlen.
    - destruct mask; [|discriminate]. simpl. rewrite app_nil_r. destruct drop; reflexivity.
    - rewrite app_length in Hlen. simpl in Hlen. rewrite Nat.add_1_r in Hlen.
      destruct (last_split mask (length t) Hlen) as (m' & b & -> & Hm').
      rewrite idx_of_mask_app. rewrite Nat.add_0_l. simpl (idx_of_mask (length m') [b]).
      rewrite sel_app, unsel_app by exact Hm'. simpl (sel [b] [x]). simpl (unsel [b] [x]).
      rewrite <- app_assoc. simpl app at 2.
      destruct b.
      + rewrite rev_app_distr. simpl rev at 1. simpl app at 1. simpl nlfs_loop.
        rewrite Hm'. rewrite nth_error_mid.
        destruct drop.
        * rewrite pop_at_app. rewrite IH by exact Hm'.
          rewrite rev_app_distr. simpl. rewrite <- app_assoc. simpl. rewrite app_nil_r. reflexivity.
        * rewrite IH by exact Hm'. rewrite rev_app_distr. simpl. rewrite <- !app_assoc. simpl. reflexivity.
      + rewrite app_nil_r. rewrite IH by exact Hm'. rewrite !app_nil_r.
        destruct drop; rewrite <- ?app_assoc; reflexivity.
  Qed.

  Lemma new_list_from_self_mask (drop : bool) l mask :
    length mask = length l ->
    new_list_from_self (idx_of_mask 0 mask) drop l = Ok (sel mask l, if drop then unsel mask l else l).
  Proof.
    intros H. unfold new_list_from_self.
    pose proof (nlfs_loop_mask drop l mask [] [] H) as E. rewrite !app_nil_r in E. rewrite E.
    simpl. rewrite rev_involutive. reflexivity.
  Qed.

  (* .filter(key, drop): exactly the matching elements in order; with drop the receiver
     keeps exactly the others, in order *)
  Theorem filter_model_spec (key : A -> bool) (drop : bool) (l : list A) :
    filter_model key drop l =
      Ok (filter key l, if drop then filter (fun x => negb (key x)) l else l).
  Proof.
    unfold filter_model. rewrite indexes_where_mask.
    rewrite new_list_from_self_mask by apply map_length.
    rewrite sel_map_filter, unsel_map_filter. reflexivity.
  Qed.
End Filter.

(* ------------------------------------------------------------------ *)
(* filter_duplicates                                                   *)

Definition opt_eqb_str (o : option str) (k : str) : bool :=
  match o with Some v => str_eqb k v | None => false end.

(* the criterion, stated on the elements that came earlier *)
Definition dup_crit (only_instance : bool) (earlier : list dup_elt) (e : dup_elt) : bool :=
  existsb (fun e' => str_eqb (de_hash e) (de_hash e')) earlier
  || (negb only_instance
      && match de_key e with
         | Some k => existsb (fun e' => opt_eqb_str (de_key e') k) earlier
         | None => false
         end).

Fixpoint dup_mask (only_instance : bool) (earlier : list dup_elt) (l : list dup_elt) : list bool :=
  match l with
  | [] => []
  | e :: t => dup_crit only_instance earlier e :: dup_mask only_instance (earlier ++ [e]) t
  end.

Lemma mem_str_existsb x l : mem_str x l = existsb (str_eqb x) l.
Proof. reflexivity. Qed.

Lemma existsb_app_comm {B} (f : B -> bool) l x : existsb f (l ++ [x]) = existsb f l || f x.
Proof. rewrite existsb_app. simpl. rewrite orb_false_r. reflexivity. Qed.

Lemma existsb_rev' {B} (f : B -> bool) l : existsb f (rev l) = existsb f l.
Proof.
  induction l as [|x t IH]; simpl; [reflexivity|].
  rewrite existsb_app. simpl. rewrite IH, orb_false_r. apply orb_comm.
Qed.
Lemma existsb_map' {B C} (f : C -> bool) (g : B -> C) l : existsb f (map g l) = existsb (fun x => f (g x)) l.
Proof. induction l as [|x t IH]; simpl; [reflexivity|]. rewrite IH. reflexivity. Qed.

Lemma existsb_eqb_fresh i idx : Forall (fun j => j < i) idx -> existsb (Nat.eqb i) idx = false.
Proof.
  induction 1 as [|j t Hj Ht IH]; simpl; [reflexivity|].
  rewrite IH. rewrite orb_false_r. apply Nat.eqb_neq. lia.
Qed.

(* seen_h / seen_k as functions of the earlier elements *)
Definition seen_h_of (earlier : list dup_elt) : list str := rev (map de_hash earlier).
Definition seen_k_inv (only_instance : bool) (earlier : list dup_elt) (seen_k : list str) : Prop :=
  only_instance = false ->
  forall k, mem_str k seen_k = existsb (fun e' => opt_eqb_str (de_key e') k) earlier.

Lemma str_eqb_refl x : str_eqb x x = true.
Proof. induction x as [|c t IH]; simpl; [reflexivity|]. rewrite N.eqb_refl, IH. reflexivity. Qed.

Lemma str_eqb_eq x y : str_eqb x y = true <-> x = y.
Proof.
  revert y. induction x as [|c t IH]; destruct y as [|d u]; simpl; split; intros H; try discriminate; auto.
  - apply andb_true_iff in H. destruct H as [H1 H2]. apply N.eqb_eq in H1. apply IH in H2. subst. reflexivity.
  - inversion H; subst. rewrite N.eqb_refl. apply IH. reflexivity.
Qed.

Lemma str_eqb_sym x y : str_eqb x y = str_eqb y x.
Proof.
  destruct (str_eqb x y) eqn:E.
  - apply str_eqb_eq in E. subst. symmetry. apply str_eqb_refl.
  - destruct (str_eqb y x) eqn:E'; [|reflexivity]. apply str_eqb_eq in E'. subst.
    rewrite str_eqb_refl in E. discriminate.
Qed.

Lemma dup_loop_mask only_instance : forall l i earlier seen_k idx,
  Forall (fun j => j < i) idx ->
  seen_k_inv only_instance earlier seen_k ->
  dup_loop only_instance i l (seen_h_of earlier) seen_k idx =
    idx ++ idx_of_mask i (dup_mask only_instance earlier l).
Proof.
  induction l as [|e t IH]; intros i earlier seen_k idx Hidx Hk; simpl.
  - rewrite app_nil_r. reflexivity.
  - assert (Hh : mem_str (de_hash e) (seen_h_of earlier)
                 = existsb (fun e' => str_eqb (de_hash e) (de_hash e')) earlier).
    { unfold seen_h_of, mem_str. rewrite existsb_rev'. rewrite existsb_map'. reflexivity. }
    assert (Hseen : de_hash e :: seen_h_of earlier = seen_h_of (earlier ++ [e])).
    { unfold seen_h_of. rewrite map_app, rev_app_distr. reflexivity. }
    assert (Hidx1 : forall extra, Forall (fun j => j < S i) (idx ++ extra) \/ True) by (intros; right; exact I).
    assert (Hlt : Forall (fun j => j < S i) idx) by (eapply Forall_impl; [|exact Hidx]; simpl; intros; lia).
    assert (Hlt1 : Forall (fun j => j < S i) (idx ++ [i])) by (apply Forall_app; split; [exact Hlt | constructor; [lia|constructor]]).
    rewrite Hh, Hseen. unfold dup_crit.
    set (h := existsb (fun e' => str_eqb (de_hash e) (de_hash e')) earlier).
    destruct only_instance.
    + simpl. rewrite orb_false_r.
      destruct h; rewrite IH; auto; try (intros ?; discriminate).
      rewrite <- app_assoc. reflexivity.
    + simpl negb. simpl andb.
      assert (Hk' : forall seen_k', (forall k, mem_str k seen_k' = existsb (fun e' => opt_eqb_str (de_key e') k) (earlier ++ [e]))
                      -> seen_k_inv false (earlier ++ [e]) seen_k') by (intros ? H _; exact H).
      specialize (Hk eq_refl).
      destruct (de_key e) as [k|] eqn:Ek.
      * rewrite (Hk k).
        set (q := existsb (fun e' => opt_eqb_str (de_key e') k) earlier).
        destruct q eqn:Eq; simpl.
        -- (* key seen before *)
           assert (Hinv : seen_k_inv false (earlier ++ [e]) seen_k).
           { apply Hk'. intros k0. rewrite existsb_app_comm, Hk. rewrite Ek. simpl.
             destruct (str_eqb k0 k) eqn:E0; [|rewrite orb_false_r; reflexivity].
             apply str_eqb_eq in E0. subst k0. fold q. rewrite Eq. reflexivity. }
           destruct h.
           ++ rewrite existsb_app_comm. rewrite Nat.eqb_refl. rewrite orb_true_r. simpl.
              rewrite IH by assumption. rewrite <- app_assoc. reflexivity.
           ++ rewrite existsb_eqb_fresh by exact Hidx. simpl.
              rewrite IH by assumption. rewrite <- app_assoc. reflexivity.
        -- (* new key *)
           assert (Hinv : seen_k_inv false (earlier ++ [e]) (k :: seen_k)).
           { apply Hk'. intros k0. rewrite existsb_app_comm. unfold mem_str. simpl.
             fold (mem_str k0 seen_k). rewrite Hk. rewrite Ek. simpl. apply orb_comm. }
           rewrite orb_false_r.
           destruct h; rewrite IH by assumption; rewrite <- ?app_assoc; reflexivity.
      * assert (Hinv : seen_k_inv false (earlier ++ [e]) seen_k).
        { apply Hk'. intros k0. rewrite existsb_app_comm, Hk. rewrite Ek. simpl. rewrite orb_false_r. reflexivity. }
        rewrite orb_false_r.
        destruct h; rewrite IH by assumption; rewrite <- ?app_assoc; reflexivity.
Qed.

Lemma dup_mask_length oi : forall l earlier, length (dup_mask oi earlier l) = length l.
Proof. induction l as [|e t IH]; intros; simpl; [reflexivity|]. rewrite IH. reflexivity. Qed.

(* filter_duplicates returns exactly the elements for which an earlier element is the same
   instance / has the same derived key, in order; drop leaves exactly the others *)
Theorem filter_duplicates_spec only_instance drop l :
  filter_duplicates_model only_instance drop l =
    Ok (sel (dup_mask only_instance [] l) l,
        if drop then unsel (dup_mask only_instance [] l) l else l).
Proof.
  unfold filter_duplicates_model.
  change (@nil str) with (seen_h_of []) at 1.
  rewrite (dup_loop_mask only_instance l 0 [] [] []); [| constructor | intros _ k; reflexivity].
  simpl app. apply new_list_from_self_mask. apply dup_mask_length.
Qed.

(* sel/unsel partition the list *)
Lemma sel_unsel_perm {A} : forall (mask : list bool) (l : list A),
  length mask = length l -> Permutation (sel mask l ++ unsel mask l) l.
Proof.
  induction mask as [|b m IH]; intros [|x t] H; simpl in *; try discriminate; [reflexivity|].
  destruct b; simpl.
  - constructor. apply IH. lia.
  - rewrite <- Permutation_middle. constructor. apply IH. lia.
Qed.

(* ------------------------------------------------------------------ *)
(* grouping                                                            *)

Section Group.
  Context {A K : Type}.
  Variable keqb : K -> K -> bool.
  Hypothesis keqb_eq : forall a b, keqb a b = true <-> a = b.

  Lemma keqb_refl a : keqb a a = true. Proof. apply keqb_eq. reflexivity. Qed.

  Definition keys_of (d : list (K * list A)) : list K := map fst d.
  Fixpoint lookup (k : K) (d : list (K * list A)) : option (list A) :=
    match d with
    | [] => None
    | (k', g) :: t => if keqb k k' then Some g else lookup k t
    end.

  Lemma dict_append_lookup k (x : A) (d : list (K * list A)) k0 :
    lookup k0 (dict_append keqb k x d) =
      if keqb k0 k then Some (match lookup k d with Some g => g ++ [x] | None => [x] end)
      else lookup k0 d.
  Proof.
    induction d as [|[k' g] t IH]; simpl.
    - destruct (keqb k0 k); reflexivity.
    - destruct (keqb k k') eqn:E; simpl.
      + apply keqb_eq in E. subst k'. destruct (keqb k0 k); reflexivity.
      + rewrite IH. destruct (keqb k0 k') eqn:E'; [|reflexivity].
        apply keqb_eq in E'. subst k'. destruct (keqb k0 k) eqn:E''; [|reflexivity].
        apply keqb_eq in E''. subst k0. rewrite keqb_refl in E. discriminate.
  Qed.

  Lemma dict_append_keys k (x : A) (d : list (K * list A)) :
    keys_of (dict_append keqb k x d) = if existsb (keqb k) (keys_of d) then keys_of d else keys_of d ++ [k].
  Proof.
    induction d as [|[k' g] t IH]; simpl; [reflexivity|].
    destruct (keqb k k') eqn:E; simpl; [reflexivity|]. rewrite IH.
    destruct (existsb (keqb k) (keys_of t)); reflexivity.
  Qed.

  (* the group of key k is exactly the elements with that key, in order *)
  Theorem group_fn_lookup (kf : A -> K) l k :
    lookup k (group_fn keqb kf l) =
      match filter (fun x => keqb k (kf x)) l with [] => None | g => Some g end.
  Proof.
    unfold group_fn.
    assert (G : forall l d,
      lookup k (fold_left (fun d x => dict_append keqb (kf x) x d) l d) =
        match lookup k d, filter (fun x => keqb k (kf x)) l with
        | Some g, f => Some (g ++ f)
        | None, [] => None
        | None, f => Some f
        end).
    { clear l. induction l as [|x t IH]; intros d; simpl.
      - destruct (lookup k d); [rewrite app_nil_r|]; reflexivity.
      - rewrite IH. rewrite dict_append_lookup.
        destruct (keqb k (kf x)) eqn:E.
        + apply keqb_eq in E. subst k. destruct (lookup (kf x) d) as [g|].
          * rewrite <- app_assoc. reflexivity.
          * reflexivity.
        + reflexivity. }
    rewrite G. simpl. destruct (filter _ l); reflexivity.
  Qed.


  (* every element lands in exactly one group: concatenating the groups gives a permutation *)
  Lemma dict_append_unpack k (x : A) (d : list (K * list A)) :
    Permutation (unpack_group (dict_append keqb k x d)) (x :: unpack_group d).
  Proof.
    unfold unpack_group. induction d as [|[k' g] t IH]; simpl; [reflexivity|].
    destruct (keqb k k'); simpl.
    - rewrite <- app_assoc. simpl. symmetry. apply Permutation_middle.
    - rewrite IH. symmetry. apply Permutation_middle.
  Qed.

  Theorem unpack_group_perm (kf : A -> K) l : Permutation (unpack_group (group_fn keqb kf l)) l.
  Proof.
    unfold group_fn.
    assert (G : forall l d, Permutation (unpack_group (fold_left (fun d x => dict_append keqb (kf x) x d) l d))
                                        (unpack_group d ++ l)).
    { clear l. induction l as [|x t IH]; intros d; simpl; [rewrite app_nil_r; reflexivity|].
      rewrite IH. rewrite dict_append_unpack. simpl. apply Permutation_middle. }
    rewrite G. reflexivity.
  Qed.

  (* keys are pairwise distinct *)
  Lemma dict_append_nodup k (x : A) (d : list (K * list A)) : NoDup (keys_of d) -> NoDup (keys_of (dict_append keqb k x d)).
  Proof.
    intros H. rewrite dict_append_keys. destruct (existsb (keqb k) (keys_of d)) eqn:E; [exact H|].
    assert (Hn : ~ In k (keys_of d)).
    { intros Hin. assert (existsb (keqb k) (keys_of d) = true) by (apply existsb_exists; exists k; split; [exact Hin|apply keqb_refl]).
      congruence. }
    clear E. induction (keys_of d) as [|a t IH]; simpl.
    - constructor; [intros []|constructor].
    - inversion H; subst. constructor.
      + intros Hin. apply in_app_or in Hin. destruct Hin as [Hin|[Hin|[]]]; [contradiction|].
        subst. apply Hn. left. reflexivity.
      + apply IH; [assumption|]. intros Hin. apply Hn. right. exact Hin.
  Qed.

  Theorem group_fn_keys_nodup (kf : A -> K) l : NoDup (keys_of (group_fn keqb kf l)).
  Proof.
    unfold group_fn.
    assert (G : forall l d, NoDup (keys_of d) -> NoDup (keys_of (fold_left (fun d x => dict_append keqb (kf x) x d) l d))).
    { clear l. induction l as [|x t IH]; intros d H; simpl; [exact H|]. apply IH. apply dict_append_nodup. exact H. }
    apply G. constructor.
  Qed.
End Group.

(* ------------------------------------------------------------------ *)
(* construction paths                                                  *)

Section Verify.
  Context {A B : Type}.
  Variable conv : A -> option B.

  Fixpoint all_some (l : list A) : option (list B) :=
    match l with
    | [] => Some []
    | x :: t => match conv x, all_some t with Some y, Some r => Some (y :: r) | _, _ => None end
    end.

  (* either every supplied element is there (converted), in order, or TypeError *)
  Theorem verify_iterable_spec l :
    verify_iterable conv l = match all_some l with Some r => Ok r | None => Raise TypeError end.
  Proof.
    induction l as [|x t IH]; simpl; [reflexivity|].
    unfold verify_individual. destruct (conv x); simpl; [|reflexivity].
    rewrite IH. destruct (all_some t); reflexivity.
  Qed.

  Lemma all_some_length l r : all_some l = Some r -> length r = length l.
  Proof.
    revert r. induction l as [|x t IH]; intros r H; simpl in *.
    - inversion H. reflexivity.
    - destruct (conv x); [|discriminate]. destruct (all_some t) as [r0|] eqn:E; [|discriminate].
      inversion H. simpl. rewrite (IH r0 eq_refl). reflexivity.
  Qed.

  Lemma all_some_map l r : all_some l = Some r -> map conv l = map Some r.
  Proof.
    revert r. induction l as [|x t IH]; intros r H; simpl in *.
    - inversion H. reflexivity.
    - destruct (conv x) eqn:Ex; [|discriminate]. destruct (all_some t) as [r0|] eqn:E; [|discriminate].
      inversion H. simpl. rewrite (IH r0 eq_refl). reflexivity.
  Qed.
End Verify.
