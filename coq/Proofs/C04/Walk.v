(* Proofs/C04/Walk.v -- no text is dropped by the marker walk or by cleanup_desc, for all texts,
   all marker lists and all layouts. *)
From Coq Require Import List NArith ZArith Arith Bool Lia.
From Coq Require String.
From PyTRS Require Import Engine.Regex Gen.Patterns PyRt.Str Gen.Tables Model.Trs Model.Unpack Model.TractPre
     Model.Aliquot Model.TractParse Model.PlssPre Model.PlssParse Proofs.C18.Lists Proofs.C11.CopyAll.
Import ListNotations.
Import String.StringSyntax.
Local Open Scope string_scope.

(* ---------------- cleanup_desc only trims the edges ---------------- *)
Definition infix (inner outer : str) : Prop := exists l r, outer = l ++ inner ++ r.

Lemma infix_refl t : infix t t. Proof. exists [], []. rewrite app_nil_r. reflexivity. Qed.
Lemma infix_trans a b c : infix a b -> infix b c -> infix a c.
Proof.
  intros (l1 & r1 & ->) (l2 & r2 & ->). exists (l2 ++ l1), (r1 ++ r2). rewrite <- !app_assoc. reflexivity.
Qed.

Lemma lstrip_by_suffix f : forall t, exists l, t = l ++ lstrip_by f t /\ forallb f l = true.
Proof.
  induction t as [|c t IH]; [exists []; split; reflexivity|]. cbn [lstrip_by].
  destruct (f c) eqn:E; [|exists []; split; reflexivity].
  destruct IH as (l & Hl & Hf). exists (c :: l). split; [cbn; f_equal; exact Hl | cbn; rewrite E; exact Hf].
Qed.

Lemma rstrip_by_prefix f t : exists r, t = rstrip_by f t ++ r /\ forallb f r = true.
Proof.
  unfold rstrip_by. destruct (lstrip_by_suffix f (rev t)) as (l & Hl & Hf).
  exists (rev l). split.
  - rewrite <- (rev_involutive t) at 1. rewrite Hl at 1. rewrite rev_app_distr. reflexivity.
  - rewrite forallb_forall in *. intros x Hx. apply Hf. apply in_rev. exact Hx.
Qed.

Lemma drop_last_prefix n (t : str) : exists r, t = drop_last n t ++ r /\ length r <= n.
Proof.
  unfold drop_last. exists (skipn (length t - n) t). split; [symmetry; apply firstn_skipn|].
  rewrite skipn_length. lia.
Qed.

Lemma cull_pass_prefix : forall culls t, exists r, t = cull_pass culls t ++ r.
Proof.
  induction culls as [|c cs IH]; intros t; [exists []; rewrite app_nil_r; reflexivity|].
  cbn [cull_pass]. destruct (endswith (lower t) c).
  - destruct (drop_last_prefix (length c) t) as (r1 & H1 & _). destruct (IH (drop_last (length c) t)) as (r2 & H2).
    exists (r2 ++ r1). rewrite app_assoc, <- H2. exact H1.
  - apply IH.
Qed.

Lemma cleanup_pass_infix t : infix (cleanup_pass t) t.
Proof.
  unfold cleanup_pass, lstrip_chars, strip_chars, strip_by.
  set (t1 := lstrip_by (fun c => mem_N c CLEANUP_LSTRIP) t).
  set (t2 := lstrip_by (fun c => mem_N c CLEANUP_STRIP) t1).
  set (t3 := rstrip_by (fun c => mem_N c CLEANUP_STRIP) t2).
  destruct (lstrip_by_suffix (fun c => mem_N c CLEANUP_LSTRIP) t) as (l1 & H1 & _).
  destruct (lstrip_by_suffix (fun c => mem_N c CLEANUP_STRIP) t1) as (l2 & H2 & _).
  destruct (rstrip_by_prefix (fun c => mem_N c CLEANUP_STRIP) t2) as (r3 & H3 & _).
  destruct (cull_pass_prefix CULL_LIST t3) as (r4 & H4).
  fold t1 in H1. fold t2 in H2. fold t3 in H3.
  exists (l1 ++ l2), (r4 ++ r3). rewrite H1 at 1. rewrite H2 at 1. rewrite H3 at 1. rewrite H4 at 1.
  rewrite <- !app_assoc. reflexivity.
Qed.

Lemma until_stable_infix (f : str -> str) : (forall t, infix (f t) t) ->
  forall fuel t r, until_stable fuel f t = Ok r -> infix r t.
Proof.
  intros Hf. induction fuel as [|k IH]; intros t r H; [discriminate|]. cbn [until_stable] in H.
  destruct (str_eqb (f t) t); [injection H as <-; apply infix_refl|].
  apply IH in H. eapply infix_trans; [exact H | apply Hf].
Qed.

(* whatever cleanup_desc returns is a contiguous piece of its input *)
Theorem cleanup_desc_infix t r : cleanup_desc t = Ok r -> infix r t.
Proof.
  unfold cleanup_desc. destruct t as [|c t']; [intros H; injection H as <-; apply infix_refl|].
  apply until_stable_infix. apply cleanup_pass_infix.
Qed.

(* ---------------- the marker walk accounts for every block ---------------- *)
Definition text_bearing (mt : mkind) : bool :=
  match mt with TEXT_START | TWPRGE_END | SEC_END => true | _ => false end.

(* the blocks the walk cuts, in order, each with its fate: true = becomes a tract description,
   false = kept as unused text.  The fate depends only on the layout and the marker kinds. *)
Fixpoint walk_trace (txt : str) (s_desc : bool) (md : list (nat * mkind)) (ms : list nat) : list (str * bool) :=
  match ms with
  | [] => []
  | p :: rest =>
      let nextp := match rest with q :: _ => q | [] => p end in
      match md_get p md, md_get nextp md with
      | Some mt, Some nmt =>
          if text_bearing mt then
            (slice txt p nextp,
             (s_desc && mk_eqb mt SEC_END) || (negb s_desc && mk_eqb nmt SEC_START)) :: walk_trace txt s_desc md rest
          else walk_trace txt s_desc md rest
      | _, _ => []
      end
  end.

Definition staged (tr : list (str * bool)) : list str := map fst (filter snd tr).
Definition unstaged (tr : list (str * bool)) : list str := map fst (filter (fun x => negb (snd x)) tr).

Lemma prep_accounts c block c' :
  prep_new_tract c block = Ok c' ->
  exists d, cleanup_desc block = Ok d /\ exists tcn, cp_tc c' = cp_tc c ++ [tcn] /\ tc_desc tcn = d /\ cp_unused c' = cp_unused c.
Proof.
  unfold prep_new_tract. destruct (cleanup_desc block) as [d|e]; cbn [bind]; [|discriminate].
  unfold stage_new_tract. destruct (cp_ws c) as [sc|]; cbn [bind]; [|discriminate].
  intros H. injection H as <-. exists d. split; [reflexivity|]. eexists. cbn [cp_tc cp_unused]. repeat split.
Qed.

Theorem walk_accounts txt sd md : forall ms c c',
  walk txt sd md ms c = Ok c' ->
  let tr := walk_trace txt sd md ms in
  map snd (cp_unused c') = map snd (cp_unused c) ++ unstaged tr /\
  exists news, cp_tc c' = cp_tc c ++ news /\
    Forall2 (fun tcn b => cleanup_desc b = Ok (tc_desc tcn)) news (staged tr).
Proof.
  induction ms as [|p rest IH]; intros c c' H; cbn [walk walk_trace] in *.
  - injection H as <-. cbn. rewrite app_nil_r. split; [reflexivity|]. exists []. rewrite app_nil_r. split; [reflexivity | constructor].
  - destruct (md_get p md) as [mt|]; [|discriminate].
    destruct (md_get (match rest with q :: _ => q | [] => p end) md) as [nmt|]; [|destruct mt; discriminate].
    destruct mt; cbn [text_bearing].
    + (* TEXT_START *)
      cbn [mk_eqb andb orb] in *. rewrite andb_false_r in *. cbn [orb] in *.
      destruct (negb sd && mk_eqb nmt SEC_START) eqn:E.
      * destruct (prep_new_tract c _) as [c1|e] eqn:Ep; cbn [bind] in H; [|discriminate].
        destruct (prep_accounts _ _ _ Ep) as (d & Hd & tcn & Htc & Hdesc & Hun).
        destruct (IH _ _ H) as (IU & news & IT & IF).
        unfold staged, unstaged in *. cbn [filter snd fst map negb]. split.
        -- rewrite IU, Hun. reflexivity.
        -- exists (tcn :: news). rewrite IT, Htc, <- app_assoc. split; [reflexivity|]. constructor; [rewrite Hdesc; exact Hd | exact IF].
      * destruct (IH _ _ H) as (IU & news & IT & IF). cbn [cp_unused cp_tc] in *.
        unfold staged, unstaged in *. cbn [filter snd fst map negb]. split.
        -- rewrite IU, map_app. cbn [map snd]. rewrite <- app_assoc. reflexivity.
        -- exists news. split; [exact IT | exact IF].
    + (* TEXT_END *) apply (IH _ _ H).
    + (* SEC_START *)
      destruct (IH _ _ H) as (IU & news & IT & IF). destruct (get_next_sec_keeps c) as [K1 K2].
      rewrite K1 in IT. rewrite K2 in IU. split; [exact IU|]. exists news. split; assumption.
    + (* SEC_END *)
      cbn [mk_eqb] in *. rewrite andb_true_r in *.
      destruct sd; cbn [negb andb orb] in *.
      * destruct (prep_new_tract c _) as [c1|e] eqn:Ep; cbn [bind] in H; [|discriminate].
        destruct (prep_accounts _ _ _ Ep) as (d & Hd & tcn & Htc & Hdesc & Hun).
        destruct (IH _ _ H) as (IU & news & IT & IF).
        unfold staged, unstaged in *. cbn [filter snd fst map negb]. split.
        -- rewrite IU, Hun. reflexivity.
        -- exists (tcn :: news). rewrite IT, Htc, <- app_assoc. split; [reflexivity|]. constructor; [rewrite Hdesc; exact Hd | exact IF].
      * destruct (mk_eqb nmt SEC_START) eqn:E.
        -- destruct (prep_new_tract c _) as [c1|e] eqn:Ep; cbn [bind] in H; [|discriminate].
           destruct (prep_accounts _ _ _ Ep) as (d & Hd & tcn & Htc & Hdesc & Hun).
           destruct (IH _ _ H) as (IU & news & IT & IF).
           unfold staged, unstaged in *. cbn [filter snd fst map negb]. split.
           ++ rewrite IU, Hun. reflexivity.
           ++ exists (tcn :: news). rewrite IT, Htc, <- app_assoc. split; [reflexivity|]. constructor; [rewrite Hdesc; exact Hd | exact IF].
        -- destruct (IH _ _ H) as (IU & news & IT & IF). cbn [cp_unused cp_tc] in *.
           unfold staged, unstaged in *. cbn [filter snd fst map negb]. split.
           ++ rewrite IU, map_app. cbn [map snd]. rewrite <- app_assoc. reflexivity.
           ++ exists news. split; [exact IT | exact IF].
    + (* TWPRGE_START *)
      destruct (IH _ _ H) as (IU & news & IT & IF). destruct (get_next_twprge_keeps c) as [K1 K2].
      rewrite K1 in IT. rewrite K2 in IU. split; [exact IU|]. exists news. split; assumption.
    + (* TWPRGE_END *)
      cbn [mk_eqb andb orb] in *. rewrite andb_false_r in *. cbn [orb] in *.
      destruct (negb sd && mk_eqb nmt SEC_START) eqn:E.
      * destruct (prep_new_tract c _) as [c1|e] eqn:Ep; cbn [bind] in H; [|discriminate].
        destruct (prep_accounts _ _ _ Ep) as (d & Hd & tcn & Htc & Hdesc & Hun).
        destruct (IH _ _ H) as (IU & news & IT & IF).
        unfold staged, unstaged in *. cbn [filter snd fst map negb]. split.
        -- rewrite IU, Hun. reflexivity.
        -- exists (tcn :: news). rewrite IT, Htc, <- app_assoc. split; [reflexivity|]. constructor; [rewrite Hdesc; exact Hd | exact IF].
      * destruct (IH _ _ H) as (IU & news & IT & IF). cbn [cp_unused cp_tc] in *.
        unfold staged, unstaged in *. cbn [filter snd fst map negb]. split.
        -- rewrite IU, map_app. cbn [map snd]. rewrite <- app_assoc. reflexivity.
        -- exists news. split; [exact IT | exact IF].
Qed.

(* every unused block of reportable length becomes an unused_desc error flag carrying it verbatim *)
Theorem assemble_flags_unused st ptext layout' tracts unused wflags i u :
  In (i, u) unused -> MIN_REPORTABLE_UNUSED_LEN <= length u ->
  In (s "unused_desc<" ++ u ++ s ">", u) (e_flag_lines (po_flags (assemble st ptext layout' tracts unused wflags))).
Proof.
  intros Hin Hlen. unfold assemble. cbv zeta. cbn [po_flags e_flag_lines].
  assert (G : In (s "unused_desc<" ++ u ++ s ">", u)
                 (ps_el st ++ map (fun x : nat * str => (s "unused_desc<" ++ snd x ++ s ">", snd x))
                                  (filter (fun x : nat * str => MIN_REPORTABLE_UNUSED_LEN <=? length (snd x)) unused))).
  { apply in_or_app. right. apply in_map_iff. exists (i, u). split; [reflexivity|].
    apply filter_In. split; [exact Hin|]. cbn [snd]. apply Nat.leb_le. exact Hlen. }
  destruct (existsb _ tracts); [apply in_or_app; left|]; exact G.
Qed.
