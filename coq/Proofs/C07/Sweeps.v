(* Proofs/C07/Sweeps.v -- normalisation of aliquot spellings: finite sweeps computed on the
   regenerated patterns (each a complete enumeration of the stated finite family), and the
   fixed-point property of the substitute-until-stable loops for all texts. *)
From Coq Require Import List NArith ZArith Arith Bool Lia.
From Coq Require String.
From PyTRS Require Import Engine.Regex Gen.Patterns PyRt.Str Gen.Tables Model.Trs Model.TractPre Spec.C07Spec
     Proofs.C18.Lists.
Import ListNotations.
Import String.StringSyntax.
Local Open Scope string_scope.

Definition scrub_is (t : str) (cq : bool) (want : str) : bool :=
  match scrub_aliquots t cq with Ok r => str_eqb r want | Raise _ => false end.

(* ---- every loop returns a fixed point of its pass, for every text ---- *)
Lemma until_stable_fixed f : forall fuel t r, until_stable fuel f t = Ok r -> f r = r.
Proof.
  induction fuel as [|k IH]; intros t r H; [discriminate|]. cbn [until_stable] in H.
  destruct (str_eqb (f t) t) eqn:E.
  - inversion H; subst. apply str_eqb_eq. exact E.
  - apply IH in H. exact H.
Qed.

Lemma sub_scrubber_fixed t rg r :
  sub_scrubber t rg = Ok r -> sub (fst (fst rg)) (snd (fst rg)) (snd rg) r = r.
Proof. destruct rg as [[rx ng] repl]. unfold sub_scrubber. apply until_stable_fixed. Qed.

Lemma remove_interveners_fixed t r :
  remove_aliquot_interveners t = Ok r -> remove_aliquot_interveners r = Ok r.
Proof.
  unfold remove_aliquot_interveners. intros H. apply until_stable_fixed in H.
  destruct (stable_fuel r) eqn:F; [unfold stable_fuel in F; lia|].
  cbn [until_stable]. rewrite H. rewrite str_eqb_refl. reflexivity.
Qed.

(* ---- single components: every documented spelling, every separator context, both clean_qq ---- *)
Definition single_ok (cq : bool) (c : acomp) (sp : str) (ctx : str * str) : bool :=
  scrub_is (fst ctx ++ sp ++ snd ctx) cq (fst ctx ++ canon1 c ++ snd ctx).

Definition single_sweep : bool :=
  forallb (fun cq => forallb (fun c => forallb (fun sp => forallb (single_ok cq c sp) contexts) (spellings c)) all_comps)
          [false; true].
Lemma single_sweep_true : single_sweep = true.
Proof. vm_compute. reflexivity. Qed.

Lemma single_all cq c sp ctx :
  In c all_comps -> In sp (spellings c) -> In ctx contexts -> single_ok cq c sp ctx = true.
Proof.
  intros Hc Hs Hx. pose proof single_sweep_true as S. unfold single_sweep in S.
  rewrite forallb_forall in S. assert (Hq : In cq [false; true]) by (destruct cq; simpl; auto).
  specialize (S cq Hq). rewrite forallb_forall in S. specialize (S c Hc).
  rewrite forallb_forall in S. specialize (S sp Hs). rewrite forallb_forall in S. exact (S ctx Hx).
Qed.

(* ---- pairs: independent spelling per component x joiner ---- *)
Definition pair_ok (cq : bool) (c1 c2 : acomp) (s1 s2 j : str) : bool :=
  if (negb (match j with [] => true | _ => false end)) || ends_in_fraction s1
  then scrub_is (s1 ++ j ++ s2) cq (canon [c1; c2]) else true.

Definition pair_sweep : bool :=
  forallb (fun cq =>
    forallb (fun c1 => forallb (fun c2 =>
      forallb (fun s1 => forallb (fun s2 => forallb (pair_ok cq c1 c2 s1 s2) joiners) (spellings_core c2)) (spellings_core c1))
      all_comps) all_comps) [false; true].
Lemma pair_sweep_true : pair_sweep = true.
Proof. vm_compute. reflexivity. Qed.

(* ---- canonical text is a fixed point: all chains up to length 3 ---- *)
Definition fixed_ok (cq : bool) (ch : list acomp) : bool := scrub_is (canon ch) cq (canon ch).
Definition fixed_sweep : bool :=
  forallb (fun cq => forallb (fixed_ok cq) (chains 1 ++ chains 2 ++ chains 3)) [false; true].
Lemma fixed_sweep_true : fixed_sweep = true.
Proof. vm_compute. reflexivity. Qed.

(* ---- bare two-letter quarter: only under clean_qq or directly after a half ---- *)
Definition bare (a b : dirn) : str := letter a ++ letter b.
Definition quarters : list (dirn * dirn) := [(DN, DE); (DN, DW); (DS, DE); (DS, DW)].
Definition bare_sweep : bool :=
  forallb (fun q => let '(a, b) := q in
    forallb (fun ctx =>
      scrub_is (fst ctx ++ bare a b ++ snd ctx) false (fst ctx ++ bare a b ++ snd ctx)
      && scrub_is (fst ctx ++ bare a b ++ snd ctx) true (fst ctx ++ canon1 (Quarter a b) ++ snd ctx))
      [([], []); (s ", ", []); ([], s ", "); (s "; ", s "; "); (s "Lot 1, ", s ", Lot 2")]
    && forallb (fun h => forallb (fun cq =>
         scrub_is (canon1 (Half h) ++ bare a b) cq (canon [Half h; Quarter a b])
         && scrub_is (letter h ++ s "2" ++ bare a b) cq (canon [Half h; Quarter a b])
         && scrub_is (letter h ++ s "/2 of the " ++ bare a b) cq (canon [Half h; Quarter a b])) [false; true])
       [DN; DS; DE; DW]) quarters.
Lemma bare_sweep_true : bare_sweep = true.
Proof. vm_compute. reflexivity. Qed.
