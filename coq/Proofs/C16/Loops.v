(* Proofs/C16/Loops.v -- the substitute-until-stable loops that only shrink their text terminate
   within length+1 iterations (never OutOfFuel), for every text. *)
From Coq Require Import List NArith ZArith Arith Bool Lia.
From Coq Require String.
From PyTRS Require Import Engine.Regex Gen.Patterns PyRt.Str Gen.Tables Model.Trs Model.TractPre Model.PlssPre Model.PlssParse
     Proofs.C18.Lists Proofs.C04.Walk.
Import ListNotations.

Lemma infix_length inner outer : infix inner outer -> length inner <= length outer.
Proof. intros (l & r & ->). rewrite !app_length. lia. Qed.

Lemma infix_shorter inner outer : infix inner outer -> inner <> outer -> length inner < length outer.
Proof.
  intros (l & r & ->) Hne.
  destruct l as [|a l]; [|rewrite !app_length; cbn; lia].
  destruct r as [|b r]; [exfalso; apply Hne; cbn; rewrite app_nil_r; reflexivity|].
  cbn [app]. rewrite app_length. cbn. lia.
Qed.

(* a loop whose pass returns a piece of its input converges before the fuel runs out *)
Lemma until_stable_shrinking (f : str -> str) :
  (forall t, infix (f t) t) ->
  forall fuel t, length t < fuel -> exists r, until_stable fuel f t = Ok r.
Proof.
  intros Hf. induction fuel as [|k IH]; intros t Hl; [lia|]. cbn [until_stable].
  destruct (str_eqb (f t) t) eqn:E; [eexists; reflexivity|].
  apply IH. assert (f t <> t) by (intros C; rewrite C, str_eqb_refl in E; discriminate).
  pose proof (infix_shorter _ _ (Hf t) H). lia.
Qed.

(* cleanup_desc always terminates: at most length+1 passes *)
Theorem cleanup_desc_terminates t : exists r, cleanup_desc t = Ok r.
Proof.
  unfold cleanup_desc. destruct t as [|c t']; [eexists; reflexivity|].
  apply until_stable_shrinking; [apply cleanup_pass_infix|]. unfold stable_fuel. cbn [length]. lia.
Qed.

(* number of passes: the result is reached with any larger fuel too (fuel is not observable) *)
Lemma until_stable_mono (f : str -> str) : forall fuel t r, until_stable fuel f t = Ok r -> until_stable (S fuel) f t = Ok r.
Proof.
  induction fuel as [|k IH]; intros t r H; [discriminate|]. cbn [until_stable] in H |- *.
  destruct (str_eqb (f t) t); [exact H|]. apply IH in H. exact H.
Qed.
