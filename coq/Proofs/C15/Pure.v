(* Proofs/C15/Pure.v -- the cache invariant and state independence, for all histories. *)
From Coq Require Import List NArith ZArith Arith Bool Lia.
From Coq Require String.
From PyTRS Require Import Engine.Regex Gen.Patterns PyRt.Str Gen.Tables Model.Trs Model.PlssParse Model.PlssDesc Model.Objects Model.Global
     Proofs.C18.Lists.
Import ListNotations.

Definition inv (g : gstate) : Prop := forall k d, cache_get k (g_cache g) = Some d -> d = trs_to_dict k.

Lemma okey_eqb_eq a b : okey_eqb a b = true -> a = b.
Proof.
  destruct a, b; cbn; intros H; try discriminate; try reflexivity. apply str_eqb_eq in H. subst. reflexivity.
Qed.

Lemma inv_g0 : inv g0. Proof. intros k d H. discriminate. Qed.

Lemma trs_new_spec g x : inv g -> inv (fst (trs_new g x)) /\ snd (trs_new g x) = trs_to_dict x /\
                                   g_ns (fst (trs_new g x)) = g_ns g /\ g_ew (fst (trs_new g x)) = g_ew g.
Proof.
  intros Hi. unfold trs_new. destruct (cache_get x (g_cache g)) as [d|] eqn:E.
  - cbn. repeat split; [exact Hi | apply (Hi _ _ E)].
  - destruct (g_use g); cbn; repeat split; try exact Hi.
    intros k d. cbn [g_cache cache_get]. destruct (okey_eqb k x) eqn:Ek.
    + intros H. injection H as <-. apply okey_eqb_eq in Ek. subst. reflexivity.
    + apply Hi.
Qed.

Lemma trs_new_all_spec : forall xs g, inv g -> inv (trs_new_all g xs) /\ g_ns (trs_new_all g xs) = g_ns g /\ g_ew (trs_new_all g xs) = g_ew g.
Proof.
  induction xs as [|x t IH]; intros g Hi; cbn [trs_new_all]; [repeat split; exact Hi|].
  destruct (trs_new_spec g x Hi) as (H1 & _ & H3 & H4). destruct (IH _ H1) as (I1 & I2 & I3).
  repeat split; [exact I1 | rewrite I2; exact H3 | rewrite I3; exact H4].
Qed.

(* one step: the invariant is kept and the outcome is the pure function of the arguments and the
   MasterConfig in force -- whatever the cache holds, whether it is on or off *)
Theorem gstep_spec g op : inv g -> inv (fst (gstep g op)) /\ snd (gstep g op) = pure_out (g_ns g) (g_ew g) op.
Proof.
  intros Hi. destruct op; cbn [gstep pure_out fst snd].
  - destruct (trs_new_spec g x Hi) as (H1 & H2 & _). split; [exact H1 | rewrite H2; reflexivity].
  - split; [exact Hi | reflexivity].
  - destruct (construct_trs twp rge sec None None false (g_ns g) (g_ew g)) as [t|e]; cbn [fst snd]; [|split; [exact Hi | reflexivity]].
    destruct (trs_new_spec g (Some t) Hi) as (H1 & H2 & _). split; [exact H1 | rewrite H2; reflexivity].
  - split; [intros k d H; discriminate | reflexivity].
  - split; [exact Hi | reflexivity].
  - split; [exact Hi | reflexivity].
  - split; [|reflexivity]. destruct (plssdesc_init_parse _ _ _ _ _ _); [apply trs_new_all_spec|]; exact Hi.
  - split; [apply trs_new_spec; exact Hi | reflexivity].
  - split; [exact Hi | reflexivity].
  - split; [exact Hi | reflexivity].
Qed.

(* MasterConfig after a history *)
Definition mc_step (m : str * str) (op : gop) : str * str := match op with GMaster ns ew => (ns, ew) | _ => m end.

Lemma gstep_mc g op : (g_ns (fst (gstep g op)), g_ew (fst (gstep g op))) = mc_step (g_ns g, g_ew g) op.
Proof.
  destruct op; cbn [gstep mc_step fst snd g_ns g_ew]; try reflexivity.
  - unfold trs_new. destruct (cache_get x (g_cache g)); [|destruct (g_use g)]; reflexivity.
  - destruct (construct_trs _ _ _ _ _ _ _ _); [|reflexivity]. unfold trs_new. cbn.
    destruct (cache_get (Some a) (g_cache g)); [|destruct (g_use g)]; reflexivity.
  - destruct (plssdesc_init_parse _ _ _ _ _ _) as [p|e]; [|reflexivity].
    pose proof inv_g0. generalize (map (fun t => Some (to_trs t)) (po_tracts p)). intros xs.
    revert g. induction xs as [|x t IH]; intros g; [reflexivity|]. cbn [trs_new_all]. rewrite IH.
    unfold trs_new. destruct (cache_get x (g_cache g)); [|destruct (g_use g)]; reflexivity.
  - unfold trs_new. destruct (cache_get (Some trs) (g_cache g)); [|destruct (g_use g)]; reflexivity.
Qed.

(* a whole history: every outcome is the pure function of its own arguments and of the
   MasterConfig set by the GMaster operations before it; the cache invariant holds throughout *)
Fixpoint pure_run (m : str * str) (ops : list gop) : list gout :=
  match ops with
  | [] => []
  | op :: t => pure_out (fst m) (snd m) op :: pure_run (mc_step m op) t
  end.

Theorem grun_pure : forall ops g, inv g -> inv (fst (grun g ops)) /\ snd (grun g ops) = pure_run (g_ns g, g_ew g) ops.
Proof.
  induction ops as [|op t IH]; intros g Hi; cbn [grun pure_run fst snd]; [split; [exact Hi | reflexivity]|].
  destruct (gstep_spec g op Hi) as (H1 & H2). destruct (IH _ H1) as (I1 & I2).
  split; [exact I1|]. rewrite H2, I2, gstep_mc. reflexivity.
Qed.

(* the probe after any history = the probe in a fresh process under the same MasterConfig *)
Lemma pure_run_last : forall ops m0 probe,
  last (pure_run m0 (ops ++ [probe])) OUnit =
  pure_out (fst (fold_left mc_step ops m0)) (snd (fold_left mc_step ops m0)) probe.
Proof.
  induction ops as [|op t IH]; intros m0 probe; [reflexivity|].
  cbn [app pure_run fold_left]. rewrite <- IH.
  destruct (t ++ [probe]) as [|y l] eqn:E; [destruct t; discriminate|]. reflexivity.
Qed.

Corollary probe_after_history ops probe :
  let m := fold_left mc_step ops (g_ns g0, g_ew g0) in
  last (snd (grun g0 (ops ++ [probe]))) OUnit = pure_out (fst m) (snd m) probe.
Proof.
  intros m. destruct (grun_pure (ops ++ [probe]) g0 inv_g0) as (_ & H). rewrite H. apply pure_run_last.
Qed.
