(* Proofs/C13/Seam.v -- the string-level half of the configuration round trip, closed:
   for every configuration in the documented domain, splitting the decompiled text gives back
   exactly the tokens that were joined (so C13_roundtrip_full holds without the seam hypothesis).
   Uses the characterisation of re.split on a character class and of re.sub('\s*', '') on a text
   without blanks (Engine/RegexChr.v), for texts of any length. *)
From Coq Require Import List NArith ZArith Bool Lia.
From PyTRS Require Import Engine.Regex Engine.RegexSpec Engine.RegexChr Gen.Patterns PyRt.Str Gen.Tables Model.Trs Model.Config Proofs.C13.Config.
Import ListNotations.
From Coq Require String.
Import String.StringSyntax.
Local Open Scope string_scope.

(* the two character sets, read off the generated patterns *)
Definition WS : list (N * N) := Eval vm_compute in match inl_cfg_ws with Rep _ _ (Chr cs) => cs | _ => [] end.
Definition SEP : list (N * N) := Eval vm_compute in match inl_cfg_sep with Chr cs => cs | _ => [] end.

Lemma ws_shape : inl_cfg_ws = star WS. Proof. reflexivity. Qed.
Lemma sep_shape : inl_cfg_sep = Chr SEP. Proof. reflexivity. Qed.

Definition char_ok (c : N) : bool := negb (in_ranges c WS) && negb (in_ranges c SEP).
Definition token_clean (a : attr) (v : cval) : bool :=
  match attrib_and_val_to_str a v with Ok w => forallb char_ok w | Raise _ => true end.

Definition clean_sweep : bool := forallb (fun a => forallb (token_clean a) (domain a)) all_attrs.
Lemma clean_sweep_true : clean_sweep = true.
Proof. vm_compute. reflexivity. Qed.

Lemma token_is_clean a v : In v (domain a) -> token_clean a v = true.
Proof.
  intros H. pose proof clean_sweep_true as S. unfold clean_sweep in S.
  rewrite forallb_forall in S. assert (Ha : In a all_attrs) by (destruct a; simpl; auto 20).
  specialize (S a Ha). rewrite forallb_forall in S. exact (S v H).
Qed.

Definition tok_ok (w : str) : Prop := w <> [] /\ forallb char_ok w = true.

Lemma decompile_tokens_ok : forall l c toks, in_domain c -> decompile_attrs l c = Ok toks -> Forall tok_ok toks.
Proof.
  induction l as [|a t IH]; intros c toks Hd H; cbn [decompile_attrs] in H.
  - injection H as <-. constructor.
  - pose proof (token_is_clean a (cget a c) (Hd a)) as T. unfold token_clean in T.
    destruct (attrib_and_val_to_str a (cget a c)) as [w|e]; [|discriminate]. cbn [bind] in H.
    destruct (decompile_attrs t c) as [r|e] eqn:Er; [|discriminate]. cbn [bind] in H. injection H as <-.
    specialize (IH c r Hd Er). destruct w as [|ch w]; [exact IH|]. constructor; [split; [discriminate | exact T] | exact IH].
Qed.

Lemma join_join1 : forall l, join [44%N] l = join1 44%N l.
Proof. induction l as [|x [|y t] IH]; [reflexivity | reflexivity|]. change (join [44%N] (x :: y :: t)) with (x ++ [44%N] ++ join [44%N] (y :: t)). rewrite IH. reflexivity. Qed.

Lemma char_ok_split c : char_ok c = true -> in_ranges c WS = false /\ in_ranges c SEP = false.
Proof. unfold char_ok. intros H. apply andb_true_iff in H. destruct H as [A B]. apply negb_true_iff in A, B. auto. Qed.

Lemma tok_clean_ws w : forallb char_ok w = true -> clean WS w /\ clean SEP w.
Proof.
  intros H. split; apply Forall_forall; intros c Hc; destruct (char_ok_split c (proj1 (forallb_forall _ _) H c Hc)); assumption.
Qed.

Lemma join1_clean_ws : forall toks, Forall tok_ok toks -> clean WS (join1 44%N toks).
Proof.
  induction toks as [|w [|w2 t] IH]; intros H; [constructor | |].
  - inversion H as [|? ? [_ Hw] _]; subst. exact (proj1 (tok_clean_ws _ Hw)).
  - inversion H as [|? ? [_ Hw] Ht]; subst. change (join1 44%N (w :: w2 :: t)) with (w ++ 44%N :: join1 44%N (w2 :: t)).
    apply Forall_app. split; [exact (proj1 (tok_clean_ws _ Hw))|]. constructor; [reflexivity | exact (IH Ht)].
Qed.

Theorem config_lines_join toks : toks <> [] -> Forall tok_ok toks -> config_lines (join (s ",") toks) = toks.
Proof.
  intros Hne H. unfold config_lines. change (s ",") with [44%N]. rewrite join_join1, ws_shape, sep_shape.
  rewrite sub_star_clean by (apply join1_clean_ws; exact H). rewrite split_chr.
  apply split_join; [reflexivity | exact Hne|]. apply Forall_forall. intros w Hw.
  destruct (proj1 (Forall_forall _ _) H w Hw) as [_ K]. exact (proj2 (tok_clean_ws _ K)).
Qed.

Theorem seam_holds c : in_domain c -> forall toks, decompile_attrs all_attrs c = Ok toks -> toks <> [] -> config_lines (join (s ",") toks) = toks.
Proof. intros Hd toks H Hne. apply config_lines_join; [exact Hne | exact (decompile_tokens_ok _ _ _ Hd H)]. Qed.

(* the round trip, unconditionally *)
Theorem roundtrip_full c : in_domain c -> (do t <- decompile_to_text c; text_to_attributes t) = Ok c.
Proof.
  intros Hd. pose proof (tokens_roundtrip c Hd) as T. unfold decompile_to_text, text_to_attributes.
  destruct (decompile_attrs all_attrs c) as [toks|e] eqn:E; [|cbn in T; discriminate]. cbn [bind] in T |- *.
  destruct toks as [|w toks'].
  - cbn [set_lines] in T. injection T as <-. vm_compute. reflexivity.
  - rewrite (seam_holds c Hd _ E) by discriminate. exact T.
Qed.
