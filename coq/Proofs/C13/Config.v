(* Proofs/C13/Config.v -- Config round trip (token level, all settings in the documented
   domain), unknown names, and the precedence keyword > config/attribute > default for
   PLSSDesc.parse and Tract.parse. *)
From Coq Require Import List NArith ZArith Arith Bool Lia.
From Coq Require String.
From PyTRS Require Import Engine.Regex Gen.Patterns PyRt.Str Gen.Tables Model.Trs Model.Config.
Import ListNotations.
Import String.StringSyntax.
Local Open Scope string_scope.

(* the enumeration is the regenerated tuple _CONFIG_ATTRIBUTES, in order *)
Lemma attr_table : map attr_name all_attrs = CONFIG_ATTRIBUTES.
Proof. vm_compute. reflexivity. Qed.
Lemma plss_attrs_all : plss_attrs = all_attrs.
Proof. vm_compute. reflexivity. Qed.

Definition attr_eqb (a b : attr) : bool :=
  match a, b with
  | A_default_ns, A_default_ns | A_default_ew, A_default_ew | A_layout, A_layout
  | A_wait_to_parse, A_wait_to_parse | A_parse_qq, A_parse_qq | A_clean_qq, A_clean_qq
  | A_sec_colon_required, A_sec_colon_required | A_sec_colon_cautious, A_sec_colon_cautious
  | A_suppress_lot_divs, A_suppress_lot_divs | A_ocr_scrub, A_ocr_scrub | A_segment, A_segment
  | A_qq_depth, A_qq_depth | A_qq_depth_min, A_qq_depth_min | A_qq_depth_max, A_qq_depth_max
  | A_break_halves, A_break_halves | A_sec_within, A_sec_within => true
  | _, _ => false
  end.

Lemma attr_eqb_eq a b : attr_eqb a b = true <-> a = b.
Proof. destruct a, b; simpl; split; intros H; try reflexivity; try discriminate. Qed.

Lemma cget_cset a b v c : cget a (cset b v c) = if attr_eqb a b then v else cget a c.
Proof. destruct c; destruct a, b; reflexivity. Qed.

Lemma cfg_ext c1 c2 : (forall a, cget a c1 = cget a c2) -> c1 = c2.
Proof.
  intros H. destruct c1, c2.
  pose proof (H A_default_ns); pose proof (H A_default_ew); pose proof (H A_layout);
  pose proof (H A_wait_to_parse); pose proof (H A_parse_qq); pose proof (H A_clean_qq);
  pose proof (H A_sec_colon_required); pose proof (H A_sec_colon_cautious);
  pose proof (H A_suppress_lot_divs); pose proof (H A_ocr_scrub); pose proof (H A_segment);
  pose proof (H A_qq_depth); pose proof (H A_qq_depth_min); pose proof (H A_qq_depth_max);
  pose proof (H A_break_halves); pose proof (H A_sec_within).
  simpl in *. clear H. subst. reflexivity.
Qed.

(* ---------------- unknown setting names ---------------- *)
Lemma attr_of_str_unknown t : mem_str t CONFIG_ATTRIBUTES = false -> attr_of_str t = None.
Proof. intros H. unfold attr_of_str. rewrite H. reflexivity. Qed.

Lemma unknown_name_rejected line d :
  let parts := split inl_cfg_kv2 inl_cfg_kv2_ng line in
  let attribute := match parts with [a; _] => a | _ => line end in
  mem_str attribute CONFIG_ATTRIBUTES = false ->
  str_to_values_effect line d = Raise ValueError.
Proof.
  intros parts attribute H. unfold str_to_values_effect. fold parts.
  destruct parts as [|a [|v [|x r]]]; simpl in *; rewrite attr_of_str_unknown by exact H; reflexivity.
Qed.

(* ---------------- token level round trip ---------------- *)
Definition cval_eqb (a b : cval) : bool :=
  match a, b with
  | CNone, CNone => true
  | CBool x, CBool y => Bool.eqb x y
  | CInt x, CInt y => (x =? y)%Z
  | CStr x, CStr y => str_eqb x y
  | _, _ => false
  end.

(* writing a setting and reading the token back sets exactly that setting to that value *)
Definition token_ok (a : attr) (v : cval) : bool :=
  match attrib_and_val_to_str a v with
  | Raise _ => false
  | Ok w =>
      match line_effect w with
      | Ok (Some (a', v')) => attr_eqb a' a && cval_eqb v' v && negb (is_none v)
      | Ok None => is_none v
      | Raise _ => false
      end
  end.

Definition bool_attrs : list attr := filter is_bool_attr all_attrs.
Definition int_attrs : list attr := [A_qq_depth; A_qq_depth_min; A_qq_depth_max].
Definition zrange (lo : Z) (n : nat) : list Z := map (fun i => (lo + Z.of_nat i)%Z) (seq 0 n).

Definition domain (a : attr) : list cval :=
  if is_bool_attr a then [CNone; CBool true; CBool false]
  else match a with
       | A_default_ns => CNone :: map CStr MC_LEGAL_NS
       | A_default_ew => CNone :: map CStr MC_LEGAL_EW
       | A_layout => CNone :: map CStr IMPLEMENTED_LAYOUTS
       | _ => CNone :: map CInt (zrange (-100) 1101)
       end.

Definition tokens_sweep : bool := forallb (fun a => forallb (token_ok a) (domain a)) all_attrs.
Lemma tokens_sweep_true : tokens_sweep = true.
Proof. vm_compute. reflexivity. Qed.

Lemma token_roundtrip a v : In v (domain a) -> token_ok a v = true.
Proof.
  intros H. pose proof tokens_sweep_true as S. unfold tokens_sweep in S.
  rewrite forallb_forall in S. assert (Ha : In a all_attrs) by (destruct a; simpl; auto 20).
  specialize (S a Ha). rewrite forallb_forall in S. exact (S v H).
Qed.

Lemma cval_eqb_eq a b : cval_eqb a b = true -> a = b.
Proof.
  destruct a, b; simpl; intros H; try discriminate; try reflexivity.
  - apply Bool.eqb_prop in H. subst. reflexivity.
  - apply Z.eqb_eq in H. subst. reflexivity.
  - f_equal. revert t0 H. induction t as [|x t IH]; destruct t0 as [|y t0]; simpl; intros H; try discriminate; auto.
    apply andb_true_iff in H. destruct H as [H1 H2]. apply N.eqb_eq in H1. subst. f_equal. apply IH. exact H2.
Qed.

(* the tokens written for a configuration, read back one by one, rebuild it *)
Definition in_domain (c : cfg) : Prop := forall a, In (cget a c) (domain a).

Fixpoint rebuild (l : list attr) (src acc : cfg) : cfg :=
  match l with
  | [] => acc
  | a :: t => rebuild t src (if is_none (cget a src) then acc else cset a (cget a src) acc)
  end.

Lemma set_lines_tokens : forall l src acc,
  in_domain src ->
  (do toks <- decompile_attrs l src; set_lines toks acc) = Ok (rebuild l src acc).
Proof.
  induction l as [|a t IH]; intros src acc Hd; simpl; [reflexivity|].
  pose proof (token_roundtrip a (cget a src) (Hd a)) as T. unfold token_ok in T.
  destruct (attrib_and_val_to_str a (cget a src)) as [w|e] eqn:Ew; [|discriminate]. simpl.
  specialize (IH src). 
  destruct (decompile_attrs t src) as [r|e] eqn:Er; simpl in *.
  - destruct (line_effect w) as [[[a' v']|]|e'] eqn:El; try discriminate.
    + apply andb_true_iff in T. destruct T as [T Tn]. apply andb_true_iff in T. destruct T as [T1 T2].
      apply attr_eqb_eq in T1. apply cval_eqb_eq in T2. subst a' v'.
      destruct (is_none (cget a src)) eqn:En; [discriminate|].
      destruct w as [|ch w'].
      * (* an empty token would have been skipped: impossible, its effect is Some *)
        simpl in El. discriminate.
      * simpl. unfold set_line. rewrite El. simpl. apply (IH (cset a (cget a src) acc) Hd).
    + rewrite T. destruct w as [|ch w'].
      * apply (IH acc Hd).
      * simpl. unfold set_line. rewrite El. simpl. apply (IH acc Hd).
  - specialize (IH acc Hd). discriminate.
Qed.

Lemma rebuild_get : forall l src acc b,
  cget b (rebuild l src acc) =
    if existsb (attr_eqb b) l && negb (is_none (cget b src)) then cget b src else cget b acc.
Proof.
  induction l as [|a t IH]; intros src acc b; simpl; [reflexivity|].
  rewrite IH. destruct (attr_eqb b a) eqn:E; simpl.
  - apply attr_eqb_eq in E. subst a.
    destruct (is_none (cget b src)) eqn:En; simpl.
    + rewrite andb_false_r. reflexivity.
    + rewrite andb_true_r. destruct (existsb (attr_eqb b) t); [reflexivity|].
      rewrite cget_cset. replace (attr_eqb b b) with true by (symmetry; apply attr_eqb_eq; reflexivity). reflexivity.
  - destruct (existsb (attr_eqb b) t && negb (is_none (cget b src))); [reflexivity|].
    destruct (is_none (cget a src)); [reflexivity|]. rewrite cget_cset, E. reflexivity.
Qed.

Lemma rebuild_all src : rebuild all_attrs src empty_cfg = src.
Proof.
  apply cfg_ext. intros b. rewrite rebuild_get.
  replace (existsb (attr_eqb b) all_attrs) with true by (destruct b; reflexivity). simpl.
  destruct (cget b src) eqn:E; simpl; try reflexivity. destruct b; reflexivity.
Qed.

Theorem tokens_roundtrip c :
  in_domain c -> (do toks <- decompile_attrs all_attrs c; set_lines toks empty_cfg) = Ok c.
Proof. intros H. rewrite set_lines_tokens by exact H. rewrite rebuild_all. reflexivity. Qed.

(* the string-level seam: splitting the joined tokens gives the tokens back *)
Definition seam (c : cfg) : Prop :=
  forall toks, decompile_attrs all_attrs c = Ok toks -> config_lines (join (s ",") toks) = toks.

Theorem roundtrip_under_seam c :
  in_domain c -> seam c ->
  (do t <- decompile_to_text c; text_to_attributes t) = Ok c.
Proof.
  intros Hd Hs. pose proof (tokens_roundtrip c Hd) as T. unfold decompile_to_text, text_to_attributes.
  unfold seam in Hs.
  destruct (decompile_attrs all_attrs c) as [toks|e]; [|simpl in T; discriminate].
  simpl in T |- *. rewrite (Hs toks eq_refl). exact T.
Qed.

(* ---------------- precedence ---------------- *)
Lemma apply_config_get : forall l new st b,
  cget b (apply_config l new st) =
    if existsb (attr_eqb b) l && negb (is_none (cget b new)) then cget b new else cget b st.
Proof.
  induction l as [|a t IH]; intros new st b; simpl; [reflexivity|].
  rewrite IH. destruct (attr_eqb b a) eqn:E; simpl.
  - apply attr_eqb_eq in E. subst a.
    destruct (is_none (cget b new)) eqn:En; simpl.
    + rewrite andb_false_r. reflexivity.
    + rewrite andb_true_r. destruct (existsb (attr_eqb b) t); [reflexivity|].
      rewrite cget_cset. replace (attr_eqb b b) with true by (symmetry; apply attr_eqb_eq; reflexivity). reflexivity.
  - destruct (existsb (attr_eqb b) t && negb (is_none (cget b new))); [reflexivity|].
    destruct (is_none (cget a new)); [reflexivity|]. rewrite cget_cset, E. reflexivity.
Qed.

(* the .config setter: a given setting replaces the attribute, an absent one keeps it *)
Lemma pd_set_config_get new st b :
  cget b (pd_set_config new st) = if is_none (cget b new) then cget b st else cget b new.
Proof.
  unfold pd_set_config. rewrite apply_config_get, plss_attrs_all.
  replace (existsb (attr_eqb b) all_attrs) with true by (destruct b; reflexivity).
  simpl. destruct (is_none (cget b new)); reflexivity.
Qed.

(* "plain" keyword-settable settings of PLSSDesc.parse: effective = keyword if given, else attribute *)
Definition pd_field (a : attr) (e : pd_effective) : cval :=
  match a with
  | A_ocr_scrub => pe_ocr_scrub e | A_sec_within => pe_sec_within e | A_parse_qq => pe_parse_qq e
  | A_clean_qq => pe_clean_qq e | A_break_halves => pe_break_halves e
  | A_qq_depth_min => pe_qq_depth_min e | A_qq_depth_max => pe_qq_depth_max e
  | A_layout => pe_layout e
  | _ => CNone
  end.
Definition pd_plain : list attr :=
  [A_ocr_scrub; A_sec_within; A_parse_qq; A_clean_qq; A_break_halves; A_qq_depth_min; A_qq_depth_max; A_layout].

Lemma pd_keyword_first conf st kws a :
  In a pd_plain -> pd_field a (pd_parse conf st kws) = or_attr (cget a kws) (cget a st).
Proof.
  intros H. simpl in H. unfold pd_parse, kw.
  repeat (destruct H as [<-|H]; [reflexivity|]). destruct H.
Qed.

(* segment: keyword first, forced off under copy_all *)
Lemma pd_segment conf st kws :
  pe_segment (pd_parse conf st kws) =
    match pe_layout (pd_parse conf st kws) with
    | CStr t => if str_eqb t COPY_ALL then CBool false else or_attr (cget A_segment kws) (cget A_segment st)
    | _ => or_attr (cget A_segment kws) (cget A_segment st)
    end.
Proof. reflexivity. Qed.

(* colon mode: from the two settings, each resolved keyword-first *)
Lemma pd_require_colon conf st kws :
  let req := or_attr (cget A_sec_colon_required kws) (cget A_sec_colon_required st) in
  let cau := or_attr (cget A_sec_colon_cautious kws) (cget A_sec_colon_cautious st) in
  pe_require_colon (pd_parse conf st kws) =
    if truthy cau && negb (truthy req) then CStr SEC_COLON_CAUTIOUS else req.
Proof. reflexivity. Qed.

(* the config handed to the tracts carries the effective tract-level settings *)
Lemma pd_handed_down conf st kws :
  let e := pd_parse conf st kws in
  let tc := pd_tract_config conf (cget A_suppress_lot_divs st) (pe_parse_qq e) (pe_clean_qq e) (pe_ocr_scrub e)
                            (pe_qq_depth e) (pe_qq_depth_min e) (pe_qq_depth_max e) (pe_break_halves e) in
  pe_handed_down e = decompile_to_text tc /\
  cget A_parse_qq tc = pe_parse_qq e /\ cget A_clean_qq tc = pe_clean_qq e /\
  cget A_ocr_scrub tc = pe_ocr_scrub e /\ cget A_qq_depth tc = pe_qq_depth e /\
  cget A_qq_depth_min tc = pe_qq_depth_min e /\ cget A_qq_depth_max tc = pe_qq_depth_max e /\
  cget A_break_halves tc = pe_break_halves e /\ cget A_suppress_lot_divs tc = cget A_suppress_lot_divs st.
Proof.
  intros e tc. split; [reflexivity|]. unfold tc, pd_tract_config. repeat rewrite cget_cset. simpl.
  repeat split; reflexivity.
Qed.

(* channels: a value given in the config (at creation or assigned later) has the same
   effect as the same value given as a keyword, for every plain setting *)
Definition nokw : cfg := empty_cfg.

Lemma channel_config_vs_keyword conf0 st0 a v :
  In a pd_plain -> is_none v = false ->
  let st_cfg := pd_set_config (cset a v empty_cfg) st0 in
  pd_field a (pd_parse conf0 st_cfg nokw) = pd_field a (pd_parse conf0 st0 (cset a v nokw)).
Proof.
  intros H Hv st_cfg. rewrite !pd_keyword_first by exact H. unfold st_cfg.
  rewrite pd_set_config_get. rewrite !cget_cset.
  replace (attr_eqb a a) with true by (symmetry; apply attr_eqb_eq; reflexivity).
  rewrite Hv. unfold or_attr, nokw. rewrite Hv.
  destruct a; reflexivity.
Qed.

(* keyword beats a conflicting config *)
Lemma keyword_beats_config conf st0 a v other :
  In a pd_plain -> is_none v = false ->
  pd_field a (pd_parse conf (pd_set_config (cset a other empty_cfg) st0) (cset a v nokw)) = v.
Proof.
  intros H Hv. rewrite pd_keyword_first by exact H. rewrite cget_cset.
  replace (attr_eqb a a) with true by (symmetry; apply attr_eqb_eq; reflexivity).
  unfold or_attr. rewrite Hv. reflexivity.
Qed.

(* Tract.parse *)
Lemma tr_keyword_first st kws :
  te_clean_qq (tr_parse st kws) = or_attr (cget A_clean_qq kws) (cget A_clean_qq st) /\
  te_suppress_lot_divs (tr_parse st kws) = or_attr (cget A_suppress_lot_divs kws) (cget A_suppress_lot_divs st) /\
  te_break_halves (tr_parse st kws) = or_attr (cget A_break_halves kws) (cget A_break_halves st).
Proof.
  unfold tr_parse, kw.
  repeat match goal with |- context [if ?b then _ else _] => destruct b end; repeat split.
Qed.

(* depth: an exact depth keyword overrides everything; otherwise keyword min/max override the
   configured exact depth; otherwise the configured exact depth; otherwise min/max *)
Lemma tr_depth st kws :
  let k := fun a => cget a kws in let at_ := fun a => cget a st in
  (te_qq_depth_min (tr_parse st kws), te_qq_depth_max (tr_parse st kws)) =
    if negb (is_none (k A_qq_depth)) then (k A_qq_depth, k A_qq_depth)
    else if is_none (k A_qq_depth_min) && is_none (k A_qq_depth_max) && negb (is_none (at_ A_qq_depth))
         then (at_ A_qq_depth, at_ A_qq_depth)
    else (or_attr (k A_qq_depth_min) (at_ A_qq_depth_min), or_attr (k A_qq_depth_max) (at_ A_qq_depth_max)).
Proof.
  intros k at_. unfold tr_parse, kw, k, at_. simpl.
  destruct (is_none (c_qq_depth kws)); simpl; [|reflexivity].
  destruct (is_none (c_qq_depth_min kws)), (is_none (c_qq_depth_max kws)), (is_none (c_qq_depth st)); reflexivity.
Qed.

Lemma tr_set_config_get new st b :
  In b tract_attrs ->
  cget b (tr_set_config new st) = if is_none (cget b new) then cget b st else cget b new.
Proof.
  intros H. unfold tr_set_config. rewrite apply_config_get.
  replace (existsb (attr_eqb b) tract_attrs) with true.
  - simpl. destruct (is_none (cget b new)); reflexivity.
  - symmetry. apply existsb_exists. exists b. split; [exact H | apply attr_eqb_eq; reflexivity].
Qed.
