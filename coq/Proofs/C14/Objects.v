(* Proofs/C14/Objects.v -- commit=False leaves the object alone; a PLSSDesc parse depends only on
   text and settings (so repeating it changes nothing); what a Tract parse computes does not depend
   on the flags it inherits, and the flags it returns are the inherited ones followed by its own. *)
From Coq Require Import List NArith ZArith Arith Bool Lia.
From Coq Require String.
From PyTRS Require Import Engine.Regex Gen.Patterns PyRt.Str Gen.Tables Model.Trs Model.Unpack Model.TractPre
     Model.Aliquot Model.TractParse Model.PlssPre Model.PlssParse Model.Config Model.PlssDesc Model.Objects.
Import ListNotations.
Import String.StringSyntax.
Local Open Scope string_scope.

(* ---------------- commit=False ---------------- *)
Theorem tract_nocommit t kws r : tract_parse t false kws = Ok r -> fst r = t.
Proof.
  unfold tract_parse. destruct (z_of_cval _); cbn [bind]; [|discriminate].
  destruct (oz_of_cval _); cbn [bind]; [|discriminate].
  destruct (tract_parser _ _ _ _ _ _ _ _); cbn [bind]; [|discriminate].
  intros H. injection H as <-. reflexivity.
Qed.

Theorem tract_preprocess_nocommit t cq r : tract_preprocess t false cq = Ok r -> fst r = t.
Proof.
  unfold tract_preprocess. destruct (scrub_aliquots _ _); cbn [bind]; [|discriminate].
  intros H. injection H as <-. reflexivity.
Qed.

Theorem plss_nocommit o kws r : plss_parse o false kws = Ok r -> fst r = o.
Proof.
  unfold plss_parse. destruct (run_parser _ _ _ _ _); cbn [bind]; [|discriminate].
  destruct (pe_handed_down _); cbn [bind]; [|discriminate].
  destruct (objs_of _ _ _); cbn [bind]; [|discriminate].
  intros H. injection H as <-. reflexivity.
Qed.

(* ---------------- a committed PLSSDesc parse replaces, and repeating it changes nothing ---------------- *)
Theorem plss_parse_idempotent o kws r :
  plss_parse o true kws = Ok r -> plss_parse (fst r) true kws = Ok r.
Proof.
  unfold plss_parse. destruct (run_parser _ _ _ _ _) as [p|e] eqn:Ep; cbn [bind]; [|discriminate].
  destruct (pe_handed_down _) as [h|e] eqn:Eh; cbn [bind]; [|discriminate].
  destruct (objs_of _ _ _) as [objs|e] eqn:Eo; cbn [bind]; [|discriminate].
  intros H. injection H as <-. cbn [fst pj_conf pj_attrs pj_text pj_mc_ns pj_mc_ew].
  rewrite Ep. cbn [bind]. rewrite Eh. cbn [bind]. rewrite Eo. reflexivity.
Qed.

(* the result of a parse depends only on text, settings and MasterConfig -- not on what was committed before *)
Theorem plss_parse_ignores_results o tracts flags pp lay kws commit :
  let o' := mk_pobj (pj_text o) (pj_attrs o) (pj_conf o) tracts flags pp lay (pj_mc_ns o) (pj_mc_ew o) in
  match plss_parse o commit kws, plss_parse o' commit kws with
  | Ok r1, Ok r2 => snd r1 = snd r2
  | Raise e1, Raise e2 => e1 = e2
  | _, _ => False
  end.
Proof.
  intros o'. unfold plss_parse. cbn [pj_conf pj_attrs pj_text pj_mc_ns pj_mc_ew o'].
  destruct (run_parser _ _ _ _ _); cbn [bind]; [|reflexivity].
  destruct (pe_handed_down _); cbn [bind]; [|reflexivity].
  destruct (objs_of _ _ _); cbn [bind]; reflexivity.
Qed.

(* ---------------- TractParser and the flags it inherits ---------------- *)
Definition la_rel (pre_w : list str) (pre_wl : list flagline) (a a0 : lot_acc) : Prop :=
  la_lots a = la_lots a0 /\ la_acres a = la_acres a0 /\ la_w a = pre_w ++ la_w a0 /\ la_wl a = pre_wl ++ la_wl a0.

Lemma merge_acres_rel pw pwl : forall new a a0, la_rel pw pwl a a0 -> la_rel pw pwl (merge_acres new a) (merge_acres new a0).
Proof.
  induction new as [|[k v] t IH]; intros a a0 H; [exact H|]. cbn [merge_acres]. apply IH.
  destruct H as (H1 & H2 & H3 & H4). rewrite H2.
  destruct (assoc_str k (la_acres a0)); unfold la_rel; cbn [la_lots la_acres la_w la_wl]; rewrite ?H1, ?H2, ?H3, ?H4, <- ?app_assoc; repeat split.
Qed.

Lemma unpack_lot_blocks_rel pw pwl : forall blocks sup a a0,
  la_rel pw pwl a a0 ->
  match unpack_lot_blocks blocks sup a, unpack_lot_blocks blocks sup a0 with
  | Ok r, Ok r0 => la_rel pw pwl r r0
  | Raise e, Raise e0 => e = e0
  | _, _ => False
  end.
Proof.
  induction blocks as [|[blk lead] t IH]; intros sup a a0 H; cbn [unpack_lot_blocks]; [exact H|].
  destruct (lot_unpacker blk) as [u|e]; cbn [bind]; [|reflexivity].
  match goal with |- context [bind ?x _] => destruct x as [nl|e]; cbn [bind]; [|reflexivity] end.
  apply IH. apply merge_acres_rel. destruct H as (H1 & H2 & H3 & H4).
  unfold la_rel; cbn [la_lots la_acres la_w la_wl]. rewrite H1, H2, H3, H4, <- !app_assoc. repeat split.
Qed.

Lemma gen_flags_rel lots qqs pw pwl w wl :
  gen_flags lots qqs (pw ++ w) (pwl ++ wl) = (pw ++ fst (gen_flags lots qqs w wl), pwl ++ snd (gen_flags lots qqs w wl)).
Proof.
  unfold gen_flags. destruct (find_duplicates lots); destruct (find_duplicates qqs); cbn [fst snd]; rewrite <- ?app_assoc; reflexivity.
Qed.

(* what a Tract parse computes (text, lots, aliquots, acreages) does not depend on the inherited
   flags; the flags it returns are the inherited ones followed by the ones it generates *)
Theorem tract_parser_parent text cq sup mn mx qq bh parent :
  match tract_parser text cq sup mn mx qq bh parent, tract_parser text cq sup mn mx qq bh no_flags with
  | Ok r, Ok r0 =>
      tp_text r = tp_text r0 /\ tp_lots r = tp_lots r0 /\ tp_qqs r = tp_qqs r0 /\ tp_lot_acres r = tp_lot_acres r0 /\
      tp_aliquots_whole r = tp_aliquots_whole r0 /\
      w_flags (tp_flags r) = w_flags parent ++ w_flags (tp_flags r0) /\
      w_flag_lines (tp_flags r) = w_flag_lines parent ++ w_flag_lines (tp_flags r0) /\
      e_flags (tp_flags r) = e_flags parent /\ e_flag_lines (tp_flags r) = e_flag_lines parent
  | Raise e, Raise e0 => e = e0
  | _, _ => False
  end.
Proof.
  unfold tract_parser.
  destruct (scrub_aliquots text cq) as [t1|e]; cbn [bind]; [|reflexivity].
  destruct (extract_lots _ t1 []) as [[text1 lb]|e]; cbn [bind]; [|reflexivity].
  pose proof (unpack_lot_blocks_rel (w_flags parent) (w_flag_lines parent) lb sup
                (mk_lot_acc [] [] (w_flags parent) (w_flag_lines parent)) (mk_lot_acc [] [] [] [])) as R.
  cbn [w_flags w_flag_lines no_flags] in *.
  assert (R0 : la_rel (w_flags parent) (w_flag_lines parent) (mk_lot_acc [] [] (w_flags parent) (w_flag_lines parent)) (mk_lot_acc [] [] [] []))
    by (unfold la_rel; cbn; rewrite !app_nil_r; repeat split).
  specialize (R R0).
  destruct (unpack_lot_blocks lb sup (mk_lot_acc [] [] (w_flags parent) (w_flag_lines parent))) as [la|e];
    destruct (unpack_lot_blocks lb sup (mk_lot_acc [] [] [] [])) as [la0|e0]; cbn [bind]; try contradiction; [|exact R].
  destruct R as (H1 & H2 & H3 & H4).
  destruct (extract_aliquots _ text1 []) as [[text2 ab]|e]; cbn [bind]; [|reflexivity].
  destruct qq as [dq|];
    (match goal with |- context [bind ?x _] => destruct x as [qqs|e]; cbn [bind]; [|reflexivity] end);
    rewrite H1, H3, H4, gen_flags_rel;
    destruct (gen_flags (la_lots la0) qqs (la_w la0) (la_wl la0)) as [w wl]; cbn [fst snd tp_text tp_lots tp_qqs tp_lot_acres tp_aliquots_whole tp_flags w_flags w_flag_lines e_flags e_flag_lines no_flags];
    rewrite ?H2; repeat split.
Qed.
