(* Proofs/C12/Finite.v -- finite-domain facts closed by computation and lifted with
   forallb_forall: per-component behaviour of construct_trs for ALL numbers in range. *)
From Coq Require Import List NArith ZArith Arith Bool Lia.
From Coq Require String.
From PyTRS Require Import Engine.Regex Gen.Patterns PyRt.Str Gen.Tables Model.Trs Spec.C12Spec.
Import ListNotations.

Definition Nrange (n : nat) : list N := map N.of_nat (seq 0 n).

Lemma Nrange_in : forall n (x : N), (x < N.of_nat n)%N -> In x (Nrange n).
Proof.
  intros n x H. unfold Nrange. apply in_map_iff. exists (N.to_nat x). split.
  - apply N2Nat.id.
  - apply in_seq. lia.
Qed.

Definition encs : list enc := [EInt; EStr; EStrDir; EStrDirUpper; EStrZeros].
Lemma encs_all : forall e, In e encs. Proof. destruct e; simpl; auto 10. Qed.

(* twp / rge component: every number < 1000, both letters, every encoding *)
Definition twp_ok (t ns dflt : N) (e : enc) : bool :=
  let '(x, d) := scrub (encode e t ns) KNS [dflt] [119%N] false in
  let dir := match d with Some v => v | None => [dflt] end in
  str_eqb (finish_twprge x dir MC_UNDEF_TWP MC_ERR_TWP inl_trs_twp inl_trs_twp_ng)
          (str_of_N t ++ [if enc_has_dir e then ns else dflt]).

Definition rge_ok (r ew dflt : N) (e : enc) : bool :=
  let '(x, d) := scrub (encode e r ew) KEW [110%N] [dflt] false in
  let dir := match d with Some v => v | None => [dflt] end in
  str_eqb (finish_twprge x dir MC_UNDEF_RGE MC_ERR_RGE inl_trs_rge inl_trs_rge_ng)
          (str_of_N r ++ [if enc_has_dir e then ew else dflt]).

Definition sec_ok (sc : N) (e : enc) : bool :=
  let '(x, _) := scrub (encode e sc 0%N) KSEC [110%N] [119%N] false in
  str_eqb (finish_sec x) (rjust 2 48%N (str_of_N sc)).

Definition twp_sweep : bool :=
  forallb (fun t => forallb (fun ns => forallb (fun dflt => forallb (twp_ok t ns dflt) encs)
                                              [110%N; 115%N]) [110%N; 115%N]) (Nrange 1000).
Definition rge_sweep : bool :=
  forallb (fun t => forallb (fun ew => forallb (fun dflt => forallb (rge_ok t ew dflt) encs)
                                              [101%N; 119%N]) [101%N; 119%N]) (Nrange 1000).
Definition sec_sweep : bool :=
  forallb (fun sc => forallb (sec_ok sc) [EInt; EStr]) (Nrange 100).

Lemma sec_sweep_true : ltac:(let x := eval unfold sec_sweep in sec_sweep in exact (x = true)).
Proof. vm_compute. reflexivity. Qed.
Lemma rge_sweep_true : ltac:(let x := eval unfold rge_sweep in rge_sweep in exact (x = true)).
Proof. vm_compute. reflexivity. Qed.
Lemma twp_sweep_true : ltac:(let x := eval unfold twp_sweep in twp_sweep in exact (x = true)).
Proof. vm_compute. reflexivity. Qed.



Lemma is_ns_cases c : is_ns c = true -> In c [110%N; 115%N].
Proof. unfold is_ns. intros H. apply orb_true_iff in H. destruct H as [H|H]; apply N.eqb_eq in H; subst; simpl; auto. Qed.
Lemma is_ew_cases c : is_ew c = true -> In c [101%N; 119%N].
Proof. unfold is_ew. intros H. apply orb_true_iff in H. destruct H as [H|H]; apply N.eqb_eq in H; subst; simpl; auto. Qed.

Lemma forallb_In {A} (f : A -> bool) (l : list A) :
  forallb f l = true -> forall x, In x l -> f x = true.
Proof. intros H x Hx. exact (proj1 (forallb_forall f l) H x Hx). Qed.

Lemma twp_component :
  forall t ns dflt e, (t < 1000)%N -> is_ns ns = true -> is_ns dflt = true -> twp_ok t ns dflt e = true.
Proof.
  intros t ns dflt e Ht Hns Hd.
  pose proof (forallb_In _ _ twp_sweep_true t (Nrange_in 1000 t Ht)) as H1. cbv beta in H1.
  pose proof (forallb_In _ _ H1 ns (is_ns_cases _ Hns)) as H2. cbv beta in H2.
  pose proof (forallb_In _ _ H2 dflt (is_ns_cases _ Hd)) as H3. cbv beta in H3.
  exact (forallb_In _ _ H3 e (encs_all e)).
Qed.

Lemma rge_component :
  forall r ew dflt e, (r < 1000)%N -> is_ew ew = true -> is_ew dflt = true -> rge_ok r ew dflt e = true.
Proof.
  intros t ns dflt e Ht Hns Hd.
  pose proof (forallb_In _ _ rge_sweep_true t (Nrange_in 1000 t Ht)) as H1. cbv beta in H1.
  pose proof (forallb_In _ _ H1 ns (is_ew_cases _ Hns)) as H2. cbv beta in H2.
  pose proof (forallb_In _ _ H2 dflt (is_ew_cases _ Hd)) as H3. cbv beta in H3.
  exact (forallb_In _ _ H3 e (encs_all e)).
Qed.

Lemma sec_component :
  forall sc e, (sc < 100)%N -> (e = EInt \/ e = EStr) -> sec_ok sc e = true.
Proof.
  intros sc e Hs He.
  pose proof (forallb_In _ _ sec_sweep_true sc (Nrange_in 100 sc Hs)) as H1. cbv beta in H1.
  apply (forallb_In _ _ H1). destruct He; subst; simpl; auto.
Qed.
