(* Proofs/C12/Full.v -- C12 for EVERY string: what TRS(x).trs is (TRS_trs_spec), strictness,
   idempotence, and the construct / decompose round trip.  Built on the inversion of the unpacker
   match (Match.v) and the engine's path semantics (RegexSpec.v). *)
From Coq Require Import List NArith ZArith Arith Bool Lia.
From PyTRS Require Import Engine.Regex Engine.RegexSpec Gen.Patterns PyRt.Str Gen.Tables Gen.PyTables Model.Trs
     Spec.C12Spec Proofs.C12.Finite Proofs.C12.Match.
Import ListNotations.

(* ---- the six character sets, read off the generated pattern ---- *)
Definition SETS : list (N * N) * list (N * N) * list (N * N) * list (N * N) * list (N * N) * list (N * N) :=
  match trs_unpacker_regex with
  | Seq (Grp _ (Alt (Grp _ (Seq (Grp _ (Rep _ _ (Chr dig))) (Grp _ (Chr ns))))
                    (Alt (Seq (Chr x) (Seq _ (Seq _ (Chr z)))) (Seq (Chr u) _))))
        (Seq (Grp _ (Alt (Grp _ (Seq _ (Grp _ (Chr ew)))) _)) _) => (dig, ns, ew, x, z, u)
  | _ => ([], [], [], [], [], [])
  end.
Definition DIG := Eval vm_compute in (let '(d, _, _, _, _, _) := SETS in d).
Definition NS := Eval vm_compute in (let '(_, n, _, _, _, _) := SETS in n).
Definition EW := Eval vm_compute in (let '(_, _, e, _, _, _) := SETS in e).
Definition XS := Eval vm_compute in (let '(_, _, _, x, _, _) := SETS in x).
Definition ZS := Eval vm_compute in (let '(_, _, _, _, z, _) := SETS in z).
Definition US := Eval vm_compute in (let '(_, _, _, _, _, u) := SETS in u).

Lemma regex_shape : trs_unpacker_regex = unpacker DIG NS EW XS ZS US.
Proof. vm_compute. reflexivity. Qed.

(* ---- membership in a range list, as membership in its expansion (for finite sweeps) ---- *)
Definition nrange (lo hi : N) : list N := map (fun k => (lo + N.of_nat k)%N) (seq 0 (S (N.to_nat (hi - lo)))).
Definition expand (cs : list (N * N)) : list N := flat_map (fun r => nrange (fst r) (snd r)) cs.

Lemma in_ranges_expand cs c : in_ranges c cs = true -> In c (expand cs).
Proof.
  induction cs as [|[lo hi] t IH]; cbn [in_ranges expand flat_map]; [discriminate|].
  destruct (c <? lo)%N eqn:E1; [discriminate|]. destruct (c <=? hi)%N eqn:E2.
  - intros _. apply in_or_app. left. unfold nrange. cbn [fst snd]. apply in_map_iff. exists (N.to_nat (c - lo)).
    apply N.ltb_ge in E1. apply N.leb_le in E2. split; [rewrite N2Nat.id; lia | apply in_seq; lia].
  - intros H. apply in_or_app. right. apply IH. exact H.
Qed.

Lemma sweep (P : N -> bool) cs : forallb P (expand cs) = true -> forall c, in_ranges c cs = true -> P c = true.
Proof. intros H c Hc. exact (proj1 (forallb_forall P _) H c (in_ranges_expand _ _ Hc)). Qed.

Lemma str_eqb_true a : forall b, str_eqb a b = true -> a = b.
Proof.
  induction a as [|x a IH]; intros [|y b]; cbn; try discriminate; [reflexivity|].
  destruct (x =? y)%N eqn:E; [|discriminate]. apply N.eqb_eq in E. intros H. rewrite (IH _ H), E. reflexivity.
Qed.

(* what is used about a digit character (any script) *)
Definition dig_ok (c : N) : bool :=
  str_eqb (lower_char c) [c] && negb (is_space c) && is_digit c
  && negb (c =? 95)%N && negb (c =? 43)%N && negb (c =? 45)%N
  && negb (in_ranges c NS) && negb (in_ranges c EW) && negb (in_ranges c XS) && negb (in_ranges c ZS) && negb (in_ranges c US).

Lemma dig_sweep : forallb dig_ok (expand DIG) = true.
Proof. vm_compute. reflexivity. Qed.

Lemma dig_facts c : inset DIG c ->
  lower_char c = [c] /\ is_space c = false /\ is_digit c = true /\ c <> 95%N /\ c <> 43%N /\ c <> 45%N /\
  in_ranges c NS = false /\ in_ranges c EW = false /\ in_ranges c XS = false /\ in_ranges c ZS = false /\ in_ranges c US = false.
Proof.
  intros H. pose proof (sweep dig_ok DIG dig_sweep c H) as K. unfold dig_ok in K.
  repeat (apply andb_true_iff in K; destruct K as [K ?]).
  repeat match goal with H : negb _ = true |- _ => apply negb_true_iff in H end.
  repeat match goal with H : (_ =? _)%N = false |- _ => apply N.eqb_neq in H end.
  apply str_eqb_true in K. repeat split; assumption.
Qed.

Lemma NS_points d : inset NS d -> d = 78%N \/ d = 83%N \/ d = 110%N \/ d = 115%N.
Proof. intros H. apply in_ranges_expand in H. vm_compute in H. intuition congruence. Qed.
Lemma EW_points d : inset EW d -> d = 69%N \/ d = 87%N \/ d = 101%N \/ d = 119%N.
Proof. intros H. apply in_ranges_expand in H. vm_compute in H. intuition congruence. Qed.
Lemma XS_point c : inset XS c -> c = 88%N.
Proof. intros H. apply in_ranges_expand in H. vm_compute in H. intuition congruence. Qed.
Lemma ZS_point c : inset ZS c -> c = 122%N.
Proof. intros H. apply in_ranges_expand in H. vm_compute in H. intuition congruence. Qed.
Lemma US_point c : inset US c -> c = 95%N.
Proof. intros H. apply in_ranges_expand in H. vm_compute in H. intuition congruence. Qed.

(* ---- the string trs_to_dict builds, as a function of the group values ---- *)
Definition comp_str (g1 gn gd : option str) (undef err : str) : str :=
  if nonempty gn && nonempty gd then match g1 with Some v => lower v | None => err end
  else if opt_str_eqb g1 undef then undef else err.

Definition sec_str (o : option str) : str :=
  match o with
  | Some v => match py_int v with Some _ => v | None => if str_eqb v MC_UNDEF_SEC then v else MC_ERR_SEC end
  | None => MC_ERR_SEC
  end.

Lemma trs_of_match x mo : x <> [] -> fullmatch trs_unpacker_regex G x = Some mo ->
  d_trs (trs_to_dict (Some x)) =
  comp_str (group x mo 1) (group x mo 3) (group x mo 4) MC_UNDEF_TWP MC_ERR_TWP
  ++ comp_str (group x mo 5) (group x mo 7) (group x mo 8) MC_UNDEF_RGE MC_ERR_RGE
  ++ sec_str (group x mo 9).
Proof.
  intros Hne Hfm. unfold trs_to_dict. destruct x as [|c0 x']; [contradiction|]. set (x := c0 :: x') in *.
  rewrite Hfm. unfold comp_str, sec_str.
  change trs_unpacker_regex_g_twp with 1. change trs_unpacker_regex_g_twp_num with 3. change trs_unpacker_regex_g_ns with 4.
  change trs_unpacker_regex_g_rge with 5. change trs_unpacker_regex_g_rge_num with 7. change trs_unpacker_regex_g_ew with 8.
  change trs_unpacker_regex_g_sec with 9.
  destruct (nonempty (group x mo 3) && nonempty (group x mo 4));
    destruct (nonempty (group x mo 7) && nonempty (group x mo 8));
    destruct (opt_str_eqb (group x mo 1) MC_UNDEF_TWP); destruct (opt_str_eqb (group x mo 5) MC_UNDEF_RGE);
    destruct (group x mo 9) as [v|]; try (destruct (py_int v)); try (destruct (str_eqb v MC_UNDEF_SEC)); reflexivity.
Qed.

Lemma trs_of_nomatch x : x <> [] -> fullmatch trs_unpacker_regex G x = None -> d_trs (trs_to_dict (Some x)) = MC_ERR_TRS.
Proof. intros Hne Hfm. unfold trs_to_dict. destruct x as [|c0 x']; [contradiction|]. rewrite Hfm. reflexivity. Qed.

(* ---- the three shapes of a component, concretely ---- *)
Definition ERR4 : str := MC_ERR_TWP.
Definition UND4 : str := MC_UNDEF_TWP.

Inductive cnorm (ds : list (N * N)) (a na : str) : Prop :=
| CN_valid w d : a = w ++ [d] -> 1 <= length w <= 3 -> Forall (inset DIG) w -> inset ds d -> na = w ++ lower [d] -> cnorm ds a na
| CN_err : a = ERR4 -> na = ERR4 -> cnorm ds a na
| CN_und : a = UND4 -> na = UND4 -> cnorm ds a na.

Inductive snorm (c nc : str) : Prop :=
| SN_none : c = [] -> nc = MC_ERR_SEC -> snorm c nc
| SN_dig d1 d2 : c = [d1; d2] -> inset DIG d1 -> inset DIG d2 -> nc = c -> snorm c nc
| SN_err : c = MC_ERR_SEC -> nc = c -> snorm c nc
| SN_und : c = MC_UNDEF_SEC -> nc = c -> snorm c nc.

Lemma lower_digits w : Forall (inset DIG) w -> lower w = w.
Proof.
  intros H. induction H as [|c w Hc _ IH]; [reflexivity|]. unfold lower in *. cbn [flat_map].
  destruct (dig_facts c Hc) as (L & _). rewrite L, IH. reflexivity.
Qed.

Lemma lower_app a b : lower (a ++ b) = lower a ++ lower b.
Proof. unfold lower. apply flat_map_app. Qed.

Lemma comp_str_shape ds a gi gn gd undef err :
  undef = UND4 -> err = ERR4 ->
  comp_shape DIG XS ZS US ds a gi gn gd -> cnorm ds a (comp_str (Some a) gn gd undef err).
Proof.
  intros -> -> H. destruct H as [w d Ha Hl Hf Hd _ -> ->|c1 c2 c3 c4 Ha I1 I2 I3 I4 _ -> ->|c1 c2 c3 c4 Ha I1 I2 I3 I4 _ -> ->].
  - eapply CN_valid; try eassumption. unfold comp_str.
    replace (nonempty (Some w)) with true by (destruct w; [cbn in Hl; lia | reflexivity]). cbn [nonempty andb].
    rewrite Ha, lower_app, (lower_digits _ Hf). reflexivity.
  - apply XS_point in I1, I2, I3. apply ZS_point in I4. subst. apply CN_err; reflexivity.
  - apply US_point in I1, I2, I3. apply ZS_point in I4. subst. apply CN_und; reflexivity.
Qed.

Lemma py_int_unsigned t :
  (forall c r, strip t = c :: r -> c <> 43%N /\ c <> 45%N) ->
  py_int t = match int_digits (strip t) 0 false with Some n => Some (Z.of_N n) | None => None end.
Proof.
  intros H. unfold py_int. destruct (strip t) as [|c r]; [reflexivity|]. destruct (H c r eq_refl) as [H1 H2].
  destruct c as [|p]; [reflexivity|].
  let rec bits p := first [ reflexivity | (exfalso; apply H1; reflexivity) | (exfalso; apply H2; reflexivity)
                          | destruct p as [p|p|]; bits p ] in bits p.
Qed.

Lemma py_int_two_digits d1 d2 : inset DIG d1 -> inset DIG d2 -> py_int [d1; d2] <> None.
Proof.
  intros H1 H2. destruct (dig_facts d1 H1) as (_ & S1 & D1 & U1 & P1 & M1 & _). destruct (dig_facts d2 H2) as (_ & S2 & D2 & U2 & _).
  assert (St : strip [d1; d2] = [d1; d2]).
  { unfold strip, strip_by, rstrip_by, lstrip_by. cbn [rev app]. rewrite S1. cbn [rev app]. rewrite S2. reflexivity. }
  rewrite py_int_unsigned; rewrite St.
  - apply N.eqb_neq in U1, U2. unfold is_digit in D1, D2.
    destruct (digit_val d1) as [v1|] eqn:E1; [|discriminate]. destruct (digit_val d2) as [v2|] eqn:E2; [|discriminate].
    cbn [int_digits]. rewrite U1, E1, U2, E2. discriminate.
  - intros c r E. injection E as <- _. split; assumption.
Qed.

Lemma sec_str_shape c o :
  ((c = [] /\ o = None) \/ (sec_shape DIG XS US c /\ o = Some c)) -> snorm c (sec_str o).
Proof.
  intros [[-> ->]|[H ->]]; [apply SN_none; reflexivity|].
  destruct H as [d1 d2 -> I1 I2|c1 c2 -> I1 I2|c1 c2 -> I1 I2].
  - apply (SN_dig _ _ d1 d2); [reflexivity | exact I1 | exact I2 |]. unfold sec_str.
    destruct (py_int [d1; d2]) eqn:E; [reflexivity | exfalso; exact (py_int_two_digits _ _ I1 I2 E)].
  - apply XS_point in I1, I2. subst. apply SN_err; reflexivity.
  - apply US_point in I1, I2. subst. apply SN_und; reflexivity.
Qed.

(* ---- what TRS(x).trs is, for every non-empty string ---- *)
Inductive trs_res (x y : str) : Prop :=
| TR_err : fullmatch trs_unpacker_regex G x = None -> y = MC_ERR_TRS -> trs_res x y
| TR_ok a b c na nb nc : x = a ++ b ++ c -> y = na ++ nb ++ nc ->
                         cnorm NS a na -> cnorm EW b nb -> snorm c nc -> trs_res x y.

Theorem TRS_trs_spec x : x <> [] -> trs_res x (TRS_trs (Some x)).
Proof.
  intros Hne. unfold TRS_trs. destruct (fullmatch trs_unpacker_regex G x) as [mo|] eqn:Hfm.
  - rewrite (trs_of_match x mo Hne Hfm).
    pose proof Hfm as Hfm'. unfold fullmatch in Hfm'. rewrite st_at_full in Hfm'.
    destruct (m trs_unpacker_regex _ _ _) as [y|] eqn:Em; [|discriminate]. injection Hfm' as <-.
    destruct (m_path _ _ _ _ _ Em) as (p & Hin & Hk). destruct (rest (fst p)) eqn:Hend; [|discriminate]. injection Hk as <-.
    rewrite regex_shape in Hin. change G with 9 in Hin.
    destruct (unpacker_inv DIG NS EW XS ZS US x p Hin Hend) as (a & b & c & Hx & G1 & S1 & G5 & S5 & S9).
    rewrite !group_gslice. cbn [mcaps]. rewrite G1, G5.
    eapply TR_ok; [exact Hx | reflexivity | | |].
    + apply (comp_str_shape NS a _ _ _ _ _ eq_refl eq_refl S1).
    + apply (comp_str_shape EW b _ _ _ _ _ eq_refl eq_refl S5).
    + apply sec_str_shape. exact S9.
  - apply TR_err; [exact Hfm | apply trs_of_nomatch; assumption].
Qed.
