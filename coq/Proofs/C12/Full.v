(* Proofs/C12/Full.v -- C12 for EVERY string: what TRS(x).trs is (TRS_trs_spec), strictness,
   idempotence, and the construct / decompose round trip.  Built on the inversion of the unpacker
   match (Match.v) and the engine's path semantics (RegexSpec.v). *)
From Coq Require Import List NArith ZArith Arith Bool Lia.
From PyTRS Require Import Engine.Regex Engine.RegexSpec Gen.Patterns PyRt.Str Gen.Tables Gen.PyTables Model.Trs
     Spec.C12Spec Proofs.C12.Finite Proofs.C12.Match.
Import ListNotations.

(* ---- the six character sets, read off the generated pattern ---- *)
Definition SETS : list (N * N) * list (N * N) * list (N * N) * list (N * N) * list (N * N) * list (N * N) :=
  match trs_unpacker_regex with
  | Seq (Grp _ (Alt (Grp _ (Seq (Grp _ (Rep _ _ (Chr dig))) (Grp _ (Chr ns))))
                    (Alt (Seq (Chr x) (Seq _ (Seq _ (Chr z)))) (Seq (Chr u) _))))
        (Seq (Grp _ (Alt (Grp _ (Seq _ (Grp _ (Chr ew)))) _)) _) => (dig, ns, ew, x, z, u)
  | _ => ([], [], [], [], [], [])
  end.
Definition DIG := Eval vm_compute in (let '(d, _, _, _, _, _) := SETS in d).
Definition NS := Eval vm_compute in (let '(_, n, _, _, _, _) := SETS in n).
Definition EW := Eval vm_compute in (let '(_, _, e, _, _, _) := SETS in e).
Definition XS := Eval vm_compute in (let '(_, _, _, x, _, _) := SETS in x).
Definition ZS := Eval vm_compute in (let '(_, _, _, _, z, _) := SETS in z).
Definition US := Eval vm_compute in (let '(_, _, _, _, _, u) := SETS in u).

Lemma regex_shape : trs_unpacker_regex = unpacker DIG NS EW XS ZS US.
Proof. vm_compute. reflexivity. Qed.

(* ---- membership in a range list, as membership in its expansion (for finite sweeps) ---- *)
Definition nrange (lo hi : N) : list N := map (fun k => (lo + N.of_nat k)%N) (seq 0 (S (N.to_nat (hi - lo)))).
Definition expand (cs : list (N * N)) : list N := flat_map (fun r => nrange (fst r) (snd r)) cs.

Lemma in_ranges_expand cs c : in_ranges c cs = true -> In c (expand cs).
Proof.
  induction cs as [|[lo hi] t IH]; cbn [in_ranges expand flat_map]; [discriminate|].
  destruct (c <? lo)%N eqn:E1; [discriminate|]. destruct (c <=? hi)%N eqn:E2.
  - intros _. apply in_or_app. left. unfold nrange. cbn [fst snd]. apply in_map_iff. exists (N.to_nat (c - lo)).
    apply N.ltb_ge in E1. apply N.leb_le in E2. split; [rewrite N2Nat.id; lia | apply in_seq; lia].
  - intros H. apply in_or_app. right. apply IH. exact H.
Qed.

Lemma sweep (P : N -> bool) cs : forallb P (expand cs) = true -> forall c, in_ranges c cs = true -> P c = true.
Proof. intros H c Hc. exact (proj1 (forallb_forall P _) H c (in_ranges_expand _ _ Hc)). Qed.

Lemma str_eqb_true a : forall b, str_eqb a b = true -> a = b.
Proof.
  induction a as [|x a IH]; intros [|y b]; cbn; try discriminate; [reflexivity|].
  destruct (x =? y)%N eqn:E; [|discriminate]. apply N.eqb_eq in E. intros H. rewrite (IH _ H), E. reflexivity.
Qed.

(* what is used about a digit character (any script) *)
Definition dig_ok (c : N) : bool :=
  str_eqb (lower_char c) [c] && negb (is_space c) && is_digit c
  && negb (c =? 95)%N && negb (c =? 43)%N && negb (c =? 45)%N
  && negb (in_ranges c NS) && negb (in_ranges c EW) && negb (in_ranges c XS) && negb (in_ranges c ZS) && negb (in_ranges c US).

Lemma dig_sweep : forallb dig_ok (expand DIG) = true.
Proof. vm_compute. reflexivity. Qed.

Lemma dig_facts c : inset DIG c ->
  lower_char c = [c] /\ is_space c = false /\ is_digit c = true /\ c <> 95%N /\ c <> 43%N /\ c <> 45%N /\
  in_ranges c NS = false /\ in_ranges c EW = false /\ in_ranges c XS = false /\ in_ranges c ZS = false /\ in_ranges c US = false.
Proof.
  intros H. pose proof (sweep dig_ok DIG dig_sweep c H) as K. unfold dig_ok in K.
  repeat (apply andb_true_iff in K; destruct K as [K ?]).
  repeat match goal with H : negb _ = true |- _ => apply negb_true_iff in H end.
  repeat match goal with H : (_ =? _)%N = false |- _ => apply N.eqb_neq in H end.
  apply str_eqb_true in K. repeat split; assumption.
Qed.

Lemma NS_points d : inset NS d -> d = 78%N \/ d = 83%N \/ d = 110%N \/ d = 115%N.
Proof. intros H. apply in_ranges_expand in H. vm_compute in H. intuition congruence. Qed.
Lemma EW_points d : inset EW d -> d = 69%N \/ d = 87%N \/ d = 101%N \/ d = 119%N.
Proof. intros H. apply in_ranges_expand in H. vm_compute in H. intuition congruence. Qed.
Lemma XS_point c : inset XS c -> c = 88%N.
Proof. intros H. apply in_ranges_expand in H. vm_compute in H. intuition congruence. Qed.
Lemma ZS_point c : inset ZS c -> c = 122%N.
Proof. intros H. apply in_ranges_expand in H. vm_compute in H. intuition congruence. Qed.
Lemma US_point c : inset US c -> c = 95%N.
Proof. intros H. apply in_ranges_expand in H. vm_compute in H. intuition congruence. Qed.

(* ---- the string trs_to_dict builds, as a function of the group values ---- *)
Definition comp_str (g1 gn gd : option str) (undef err : str) : str :=
  if nonempty gn && nonempty gd then match g1 with Some v => lower v | None => err end
  else if opt_str_eqb g1 undef then undef else err.

Definition sec_str (o : option str) : str :=
  match o with
  | Some v => match py_int v with Some _ => v | None => if str_eqb v MC_UNDEF_SEC then v else MC_ERR_SEC end
  | None => MC_ERR_SEC
  end.

Lemma trs_of_match x mo : x <> [] -> fullmatch trs_unpacker_regex G x = Some mo ->
  d_trs (trs_to_dict (Some x)) =
  comp_str (group x mo 1) (group x mo 3) (group x mo 4) MC_UNDEF_TWP MC_ERR_TWP
  ++ comp_str (group x mo 5) (group x mo 7) (group x mo 8) MC_UNDEF_RGE MC_ERR_RGE
  ++ sec_str (group x mo 9).
Proof.
  intros Hne Hfm. unfold trs_to_dict. destruct x as [|c0 x']; [contradiction|]. set (x := c0 :: x') in *.
  rewrite Hfm. unfold comp_str, sec_str.
  change trs_unpacker_regex_g_twp with 1. change trs_unpacker_regex_g_twp_num with 3. change trs_unpacker_regex_g_ns with 4.
  change trs_unpacker_regex_g_rge with 5. change trs_unpacker_regex_g_rge_num with 7. change trs_unpacker_regex_g_ew with 8.
  change trs_unpacker_regex_g_sec with 9.
  destruct (nonempty (group x mo 3) && nonempty (group x mo 4));
    destruct (nonempty (group x mo 7) && nonempty (group x mo 8));
    destruct (opt_str_eqb (group x mo 1) MC_UNDEF_TWP); destruct (opt_str_eqb (group x mo 5) MC_UNDEF_RGE);
    destruct (group x mo 9) as [v|]; try (destruct (py_int v)); try (destruct (str_eqb v MC_UNDEF_SEC)); reflexivity.
Qed.

Lemma trs_of_nomatch x : x <> [] -> fullmatch trs_unpacker_regex G x = None -> d_trs (trs_to_dict (Some x)) = MC_ERR_TRS.
Proof. intros Hne Hfm. unfold trs_to_dict. destruct x as [|c0 x']; [contradiction|]. rewrite Hfm. reflexivity. Qed.

(* ---- the three shapes of a component, concretely ---- *)
Definition ERR4 : str := MC_ERR_TWP.
Definition UND4 : str := MC_UNDEF_TWP.

Inductive cnorm (ds : list (N * N)) (a na : str) : Prop :=
| CN_valid w d : a = w ++ [d] -> 1 <= length w <= 3 -> Forall (inset DIG) w -> inset ds d -> na = w ++ lower [d] -> cnorm ds a na
| CN_err : a = ERR4 -> na = ERR4 -> cnorm ds a na
| CN_und : a = UND4 -> na = UND4 -> cnorm ds a na.

Inductive snorm (c nc : str) : Prop :=
| SN_none : c = [] -> nc = MC_ERR_SEC -> snorm c nc
| SN_dig d1 d2 : c = [d1; d2] -> inset DIG d1 -> inset DIG d2 -> nc = c -> snorm c nc
| SN_err : c = MC_ERR_SEC -> nc = c -> snorm c nc
| SN_und : c = MC_UNDEF_SEC -> nc = c -> snorm c nc.

Lemma lower_digits w : Forall (inset DIG) w -> lower w = w.
Proof.
  intros H. induction H as [|c w Hc _ IH]; [reflexivity|]. unfold lower in *. cbn [flat_map].
  destruct (dig_facts c Hc) as (L & _). rewrite L, IH. reflexivity.
Qed.

Lemma lower_app a b : lower (a ++ b) = lower a ++ lower b.
Proof. unfold lower. apply flat_map_app. Qed.

Lemma comp_str_shape ds a gi gn gd undef err :
  undef = UND4 -> err = ERR4 ->
  comp_shape DIG XS ZS US ds a gi gn gd -> cnorm ds a (comp_str (Some a) gn gd undef err).
Proof.
  intros -> -> H. destruct H as [w d Ha Hl Hf Hd _ -> ->|c1 c2 c3 c4 Ha I1 I2 I3 I4 _ -> ->|c1 c2 c3 c4 Ha I1 I2 I3 I4 _ -> ->].
  - eapply CN_valid; try eassumption. unfold comp_str.
    replace (nonempty (Some w)) with true by (destruct w; [cbn in Hl; lia | reflexivity]). cbn [nonempty andb].
    rewrite Ha, lower_app, (lower_digits _ Hf). reflexivity.
  - apply XS_point in I1, I2, I3. apply ZS_point in I4. subst. apply CN_err; reflexivity.
  - apply US_point in I1, I2, I3. apply ZS_point in I4. subst. apply CN_und; reflexivity.
Qed.

Lemma filter_length_le' {A} (f : A -> bool) : forall l, length (filter f l) <= length l.
Proof. induction l as [|a l IH]; cbn [filter length]; [lia|]. destruct (f a); cbn [length]; lia. Qed.

(* CPython's 4300-digit limit on str -> int conversion does not bite on short strings *)
Lemma short_not_too_many t : length t <= 100 -> too_many_digits t = false.
Proof.
  intros H. unfold too_many_digits, MAX_STR_DIGITS. apply N.ltb_ge. pose proof (filter_length_le' is_digit t). lia.
Qed.

Lemma py_int_unsigned t :
  length t <= 100 ->
  (forall c r, strip t = c :: r -> c <> 43%N /\ c <> 45%N) ->
  py_int t = match int_digits (strip t) 0 false with Some n => Some (Z.of_N n) | None => None end.
Proof.
  intros HL H. unfold py_int. rewrite (short_not_too_many t HL). unfold py_int_core.
  destruct (strip t) as [|c r]; [reflexivity|]. destruct (H c r eq_refl) as [H1 H2].
  destruct c as [|p]; [reflexivity|].
  let rec bits p := first [ reflexivity | (exfalso; apply H1; reflexivity) | (exfalso; apply H2; reflexivity)
                          | destruct p as [p|p|]; bits p ] in bits p.
Qed.

Lemma py_int_two_digits d1 d2 : inset DIG d1 -> inset DIG d2 -> py_int [d1; d2] <> None.
Proof.
  intros H1 H2. destruct (dig_facts d1 H1) as (_ & S1 & D1 & U1 & P1 & M1 & _). destruct (dig_facts d2 H2) as (_ & S2 & D2 & U2 & _).
  assert (St : strip [d1; d2] = [d1; d2]).
  { unfold strip, strip_by, rstrip_by, lstrip_by. cbn [rev app]. rewrite S1. cbn [rev app]. rewrite S2. reflexivity. }
  rewrite py_int_unsigned; [rewrite St| cbn; lia | rewrite St].
  - apply N.eqb_neq in U1, U2. unfold is_digit in D1, D2.
    destruct (digit_val d1) as [v1|] eqn:E1; [|discriminate]. destruct (digit_val d2) as [v2|] eqn:E2; [|discriminate].
    cbn [int_digits]. rewrite U1, E1, U2, E2. discriminate.
  - intros c r E. injection E as <- _. split; assumption.
Qed.

Lemma sec_str_shape c o :
  ((c = [] /\ o = None) \/ (sec_shape DIG XS US c /\ o = Some c)) -> snorm c (sec_str o).
Proof.
  intros [[-> ->]|[H ->]]; [apply SN_none; reflexivity|].
  destruct H as [d1 d2 -> I1 I2|c1 c2 -> I1 I2|c1 c2 -> I1 I2].
  - apply (SN_dig _ _ d1 d2); [reflexivity | exact I1 | exact I2 |]. unfold sec_str.
    destruct (py_int [d1; d2]) eqn:E; [reflexivity | exfalso; exact (py_int_two_digits _ _ I1 I2 E)].
  - apply XS_point in I1, I2. subst. apply SN_err; reflexivity.
  - apply US_point in I1, I2. subst. apply SN_und; reflexivity.
Qed.

(* ---- what TRS(x).trs is, for every non-empty string ---- *)
Inductive trs_res (x y : str) : Prop :=
| TR_err : fullmatch trs_unpacker_regex G x = None -> y = MC_ERR_TRS -> trs_res x y
| TR_ok a b c na nb nc : x = a ++ b ++ c -> y = na ++ nb ++ nc ->
                         cnorm NS a na -> cnorm EW b nb -> snorm c nc -> trs_res x y.

Theorem TRS_trs_spec x : x <> [] -> trs_res x (TRS_trs (Some x)).
Proof.
  intros Hne. unfold TRS_trs. destruct (fullmatch trs_unpacker_regex G x) as [mo|] eqn:Hfm.
  - rewrite (trs_of_match x mo Hne Hfm).
    pose proof Hfm as Hfm'. unfold fullmatch in Hfm'. rewrite st_at_full in Hfm'.
    destruct (m trs_unpacker_regex _ _ _) as [y|] eqn:Em; [|discriminate]. injection Hfm' as <-.
    destruct (m_path _ _ _ _ _ Em) as (p & Hin & Hk). destruct (rest (fst p)) eqn:Hend; [|discriminate]. injection Hk as <-.
    rewrite regex_shape in Hin. change G with 9 in Hin.
    destruct (unpacker_inv DIG NS EW XS ZS US x p Hin Hend) as (a & b & c & Hx & G1 & S1 & G5 & S5 & S9).
    rewrite !group_gslice. cbn [mcaps]. rewrite G1, G5.
    eapply TR_ok; [exact Hx | reflexivity | | |].
    + apply (comp_str_shape NS a _ _ _ _ _ eq_refl eq_refl S1).
    + apply (comp_str_shape EW b _ _ _ _ _ eq_refl eq_refl S5).
    + apply sec_str_shape. exact S9.
  - apply TR_err; [exact Hfm | apply trs_of_nomatch; assumption].
Qed.

(* ================================================================== *)
(* Completeness: a text of the right shape is matched *)
Inductive cshape (ds : list (N * N)) (a : str) : Prop :=
| CSh_valid w d : a = w ++ [d] -> 1 <= length w <= 3 -> Forall (inset DIG) w -> inset ds d -> cshape ds a
| CSh_err : a = ERR4 -> cshape ds a
| CSh_und : a = UND4 -> cshape ds a.

Inductive sshape (c : str) : Prop :=
| SSh_none : c = [] -> sshape c
| SSh_dig d1 d2 : c = [d1; d2] -> inset DIG d1 -> inset DIG d2 -> sshape c
| SSh_err : c = MC_ERR_SEC -> sshape c
| SSh_und : c = MC_UNDEF_SEC -> sshape c.

Lemma four_path x z c1 c2 c3 c4 s g r :
  rest s = [c1; c2; c3; c4] ++ r -> inset x c1 -> inset x c2 -> inset x c3 -> inset z c4 ->
  In (adv s [c1; c2; c3; c4], g) (ms (four x z) s g).
Proof.
  intros Hr I1 I2 I3 I4. unfold four.
  apply in_ms_seq. exists (adv s [c1], g). split; [apply (in_ms_chr_adv x s g c1 ([c2; c3; c4] ++ r)); assumption|]. cbn [fst snd].
  assert (R1 : rest (adv s [c1]) = [c2; c3; c4] ++ r) by (apply (adv_rest s [c1]); exact Hr).
  apply in_ms_seq. exists (adv (adv s [c1]) [c2], g). split; [apply (in_ms_chr_adv x _ g c2 ([c3; c4] ++ r)); assumption|]. cbn [fst snd].
  assert (R2 : rest (adv (adv s [c1]) [c2]) = [c3; c4] ++ r) by (apply (adv_rest _ [c2]); exact R1).
  apply in_ms_seq. exists (adv (adv (adv s [c1]) [c2]) [c3], g). split; [apply (in_ms_chr_adv x _ g c3 ([c4] ++ r)); assumption|]. cbn [fst snd].
  assert (R3 : rest (adv (adv (adv s [c1]) [c2]) [c3]) = [c4] ++ r) by (apply (adv_rest _ [c3]); exact R2).
  replace (adv s [c1; c2; c3; c4]) with (adv (adv (adv (adv s [c1]) [c2]) [c3]) [c4]) by (rewrite !adv_app; reflexivity).
  apply (in_ms_chr_adv z _ g c4 r); assumption.
Qed.

Lemma two_path x c1 c2 s g r :
  rest s = [c1; c2] ++ r -> inset x c1 -> inset x c2 -> In (adv s [c1; c2], g) (ms (Seq (Chr x) (Chr x)) s g).
Proof.
  intros Hr I1 I2. apply in_ms_seq. exists (adv s [c1], g). split; [apply (in_ms_chr_adv x s g c1 ([c2] ++ r)); assumption|]. cbn [fst snd].
  replace (adv s [c1; c2]) with (adv (adv s [c1]) [c2]) by (rewrite adv_app; reflexivity).
  apply (in_ms_chr_adv x _ g c2 r); [apply (adv_rest s [c1]); exact Hr | exact I2].
Qed.

Lemma X88 : inset XS 88%N. Proof. reflexivity. Qed.
Lemma Z122 : inset ZS 122%N. Proof. reflexivity. Qed.
Lemma U95 : inset US 95%N. Proof. reflexivity. Qed.

Lemma comp_path gi gn gd ds s g a r :
  cshape ds a -> rest s = a ++ r -> exists g', In (adv s a, g') (ms (comp gi gn gd DIG ds XS ZS US) s g).
Proof.
  intros Hs Hr. unfold comp. destruct Hs as [w d -> Hl Hf Hd| -> | ->].
  - rewrite <- app_assoc in Hr.
    assert (H1 : In (adv s w, g) (ms (Rep 1 (Some 3) (Chr DIG)) s g)).
    { apply (in_ms_rep_intro 1 (Some 3) (Chr DIG) s g _ (length w)); [apply chr_strict | apply (chain_chr_intro DIG w s g ([d] ++ r)); assumption | lia | lia |].
      unfold rep_fuel. rewrite Hr, app_length. lia. }
    assert (R1 : rest (adv s w) = d :: r) by (apply (adv_rest s w); exact Hr).
    set (s1 := adv s w) in *. set (g1 := setg g gn (idx s, idx s1)). set (s2 := adv s1 [d]). set (g2 := setg g1 gd (idx s1, idx s2)).
    exists (setg g2 gi (idx s, idx s2)). rewrite <- adv_app. fold s1. fold s2.
    apply in_ms_alt. left. apply in_ms_grp. exists (s2, g2). split; [|reflexivity].
    apply in_ms_seq. exists (s1, g1). split; [apply in_ms_grp; exists (s1, g); split; [exact H1 | reflexivity]|]. cbn [fst snd].
    apply in_ms_grp. exists (s2, g1). split; [apply (in_ms_chr_adv ds _ _ d r); [exact R1 | exact Hd] | reflexivity].
  - exists g. apply in_ms_alt. right. apply in_ms_alt. left. apply (four_path XS ZS 88 88 88 122 s g r Hr X88 X88 X88 Z122).
  - exists g. apply in_ms_alt. right. apply in_ms_alt. right. apply (four_path US ZS 95 95 95 122 s g r Hr U95 U95 U95 Z122).
Qed.

Lemma sec_path s g c r : sshape c -> c <> [] -> rest s = c ++ r -> In (adv s c, g) (ms (secre DIG XS US) s g).
Proof.
  intros Hs Hne Hr. unfold secre. destruct Hs as [-> | d1 d2 -> I1 I2 | -> | ->]; [contradiction | | |].
  - apply in_ms_alt. left.
    apply (in_ms_rep_intro 2 (Some 2) (Chr DIG) s g _ 2); [apply chr_strict | | lia | lia |].
    + apply (chain_chr_intro DIG [d1; d2] s g r Hr). repeat constructor; assumption.
    + unfold rep_fuel. rewrite Hr. cbn. lia.
  - apply in_ms_alt. right. apply in_ms_alt. left. apply (two_path XS 88 88 s g r Hr X88 X88).
  - apply in_ms_alt. right. apply in_ms_alt. right. apply (two_path US 95 95 s g r Hr U95 U95).
Qed.

Lemma grp_sec_strict s g q : In q (ms (Grp 9 (secre DIG XS US)) s g) -> idx s < idx (fst q).
Proof.
  intros H. apply in_ms_grp in H. destruct H as (q' & H & ->). cbn [fst].
  destruct (secre_inv DIG XS US _ _ _ H) as (c & (_ & _ & I) & _ & Sc). rewrite I.
  destruct Sc as [? ? ->|? ? ->|? ? ->]; cbn; lia.
Qed.

Theorem unpacker_complete a b c :
  cshape NS a -> cshape EW b -> sshape c -> fullmatch trs_unpacker_regex G (a ++ b ++ c) <> None.
Proof.
  intros Ha Hb Hc. unfold fullmatch. rewrite st_at_full, m_spec, regex_shape. change G with 9.
  set (x := a ++ b ++ c). set (s0 := mkst [] x 0). set (g0 := init_caps 9).
  enough (E : exists p, In p (ms (unpacker DIG NS EW XS ZS US) s0 g0) /\ rest (fst p) = []).
  { destruct E as (p & Hin & Hend).
    pose proof (first_some_exists (fun y : res => match rest (fst y) with [] => Some y | _ => None end) _ p Hin) as K.
    cbv beta in K. rewrite Hend in K. specialize (K ltac:(discriminate)).
    destruct (first_some _ (ms (unpacker DIG NS EW XS ZS US) s0 g0)); [discriminate | contradiction]. }
  unfold unpacker.
  destruct (comp_path 2 3 4 NS s0 g0 a (b ++ c) Ha eq_refl) as (g1 & H1).
  set (s1 := adv s0 a) in *. assert (R1 : rest s1 = b ++ c) by (apply (adv_rest s0 a); reflexivity).
  set (c1 := setg g1 1 (idx s0, idx s1)).
  destruct (comp_path 6 7 8 EW s1 c1 b c Hb R1) as (g2 & H2).
  set (s2 := adv s1 b) in *. assert (R2 : rest s2 = c) by (apply (adv_rest s1 b); exact R1).
  set (c2 := setg g2 5 (idx s1, idx s2)).
  assert (Hq1 : In (s1, c1) (ms (Grp 1 (comp 2 3 4 DIG NS XS ZS US)) s0 g0)) by (apply in_ms_grp; exists (s1, g1); split; [exact H1 | reflexivity]).
  assert (Hq2 : In (s2, c2) (ms (Grp 5 (comp 6 7 8 DIG EW XS ZS US)) s1 c1)) by (apply in_ms_grp; exists (s2, g2); split; [exact H2 | reflexivity]).
  destruct c as [|d0 c'] eqn:Ec.
  - exists (s2, c2). split; [|exact R2].
    apply in_ms_seq. exists (s1, c1). split; [exact Hq1|]. apply in_ms_seq. exists (s2, c2). split; [exact Hq2|]. cbn [fst snd].
    apply (in_ms_rep_intro 0 (Some 1) _ s2 c2 _ 0); [apply grp_sec_strict | constructor | lia | lia | unfold rep_fuel; lia].
  - rewrite <- Ec in *. assert (Hne : c <> []) by (rewrite Ec; discriminate).
    assert (R2' : rest s2 = c ++ []) by (rewrite app_nil_r; exact R2).
    pose proof (sec_path s2 c2 c [] Hc Hne R2') as H3.
    set (s3 := adv s2 c) in *. set (c3 := setg c2 9 (idx s2, idx s3)).
    exists (s3, c3). split; [|apply (adv_rest s2 c); exact R2'].
    apply in_ms_seq. exists (s1, c1). split; [exact Hq1|]. apply in_ms_seq. exists (s2, c2). split; [exact Hq2|]. cbn [fst snd].
    apply (in_ms_rep_intro 0 (Some 1) _ s2 c2 _ 1); [apply grp_sec_strict | | lia | lia | unfold rep_fuel; lia].
    eapply chainS; [apply in_ms_grp; exists (s3, c2); split; [exact H3 | reflexivity] | constructor].
Qed.

(* ================================================================== *)
(* Uniqueness of the decomposition: the component shapes form a prefix code *)
Lemma digit_prefix_unique : forall w w' d d' (r r' : list N),
  Forall (inset DIG) w -> Forall (inset DIG) w' -> ~ inset DIG d -> ~ inset DIG d' ->
  w ++ d :: r = w' ++ d' :: r' -> w = w' /\ d = d' /\ r = r'.
Proof.
  induction w as [|c w IH]; intros [|c' w'] d d' r r' Hf Hf' Hd Hd' E; cbn in E.
  - injection E as -> ->. auto.
  - injection E as -> _. inversion Hf'; subst. contradiction.
  - injection E as -> _. inversion Hf; subst. contradiction.
  - injection E as -> E. inversion Hf; subst. inversion Hf'; subst.
    destruct (IH w' d d' r r') as (-> & -> & ->); auto.
Qed.

Definition letters_ok (ds : list (N * N)) : Prop := forall d, inset ds d -> ~ inset DIG d.

Lemma NS_letters : letters_ok NS.
Proof. intros d H Hd. destruct (dig_facts d Hd) as (_ & _ & _ & _ & _ & _ & K & _). unfold inset in H. congruence. Qed.
Lemma EW_letters : letters_ok EW.
Proof. intros d H Hd. destruct (dig_facts d Hd) as (_ & _ & _ & _ & _ & _ & _ & K & _). unfold inset in H. congruence. Qed.

Lemma cshape_unique ds a a' r r' : letters_ok ds -> cshape ds a -> cshape ds a' -> a ++ r = a' ++ r' -> a = a' /\ r = r'.
Proof.
  intros Hds H H' E.
  assert (Hx : ~ inset DIG 88%N) by (intros K; destruct (dig_facts _ K) as (_ & _ & _ & _ & _ & _ & _ & _ & K' & _); discriminate K').
  assert (Hu : ~ inset DIG 95%N) by (intros K; destruct (dig_facts _ K) as (_ & _ & _ & K' & _); apply K'; reflexivity).
  destruct H as [w d -> Hl Hf Hd| -> | ->]; destruct H' as [w' d' -> Hl' Hf' Hd'| -> | ->].
  - rewrite <- !app_assoc in E. cbn [app] in E.
    destruct (digit_prefix_unique w w' d d' r r' Hf Hf' (Hds _ Hd) (Hds _ Hd') E) as (-> & -> & ->). auto.
  - exfalso. destruct w as [|c w]; [cbn in Hl; lia|]. cbn in E. injection E as -> _. inversion Hf; subst. contradiction.
  - exfalso. destruct w as [|c w]; [cbn in Hl; lia|]. cbn in E. injection E as -> _. inversion Hf; subst. contradiction.
  - exfalso. destruct w' as [|c w']; [cbn in Hl'; lia|]. cbn in E. injection E as <- _. inversion Hf'; subst. contradiction.
  - split; [reflexivity | exact (app_inv_head _ _ _ E)].
  - discriminate E.
  - exfalso. destruct w' as [|c w']; [cbn in Hl'; lia|]. cbn in E. injection E as <- _. inversion Hf'; subst. contradiction.
  - discriminate E.
  - split; [reflexivity | exact (app_inv_head _ _ _ E)].
Qed.

(* ================================================================== *)
(* Idempotence *)
Definition low_closed (ds : list (N * N)) : Prop :=
  forall d, inset ds d -> exists d', lower [d] = [d'] /\ inset ds d' /\ lower [d'] = [d'].

Lemma NS_low : low_closed NS.
Proof. intros d H. destruct (NS_points d H) as [-> | [-> | [-> | ->]]]; eexists; (split; [reflexivity|]); split; reflexivity. Qed.
Lemma EW_low : low_closed EW.
Proof. intros d H. destruct (EW_points d H) as [-> | [-> | [-> | ->]]]; eexists; (split; [reflexivity|]); split; reflexivity. Qed.

Lemma cnorm_in ds a na : cnorm ds a na -> cshape ds a.
Proof. intros [w d Ha Hl Hf Hd _| Ha _ | Ha _]; [eapply CSh_valid; eassumption | apply CSh_err; exact Ha | apply CSh_und; exact Ha]. Qed.

Lemma cnorm_out ds a na : low_closed ds -> cnorm ds a na -> cshape ds na.
Proof.
  intros Hlow [w d Ha Hl Hf Hd ->| _ -> | _ ->]; [|apply CSh_err; reflexivity | apply CSh_und; reflexivity].
  destruct (Hlow d Hd) as (d' & -> & Hd' & _). eapply CSh_valid; [reflexivity | exact Hl | exact Hf | exact Hd'].
Qed.

Lemma cnorm_fix ds a na na' : letters_ok ds -> low_closed ds -> cnorm ds a na -> cnorm ds na na' -> na' = na.
Proof.
  intros Hds Hlow H1 H2.
  destruct H2 as [w' d' E' Hl' Hf' Hd' ->| -> -> | -> ->]; [|reflexivity | reflexivity].
  destruct H1 as [w d _ Hl Hf Hd ->| _ -> | _ ->].
  - destruct (Hlow d Hd) as (dl & L & Hdl & Ldl). rewrite L in E'.
    destruct (digit_prefix_unique w w' dl d' [] [] Hf Hf' (Hds _ Hdl) (Hds _ Hd') E') as (-> & -> & _). rewrite L, Ldl. reflexivity.
  - exfalso. destruct w' as [|c w']; [cbn in Hl'; lia|]. cbn in E'. injection E' as <- _. inversion Hf'; subst.
    destruct (dig_facts _ H1) as (_ & _ & _ & _ & _ & _ & _ & _ & K & _). discriminate K.
  - exfalso. destruct w' as [|c w']; [cbn in Hl'; lia|]. cbn in E'. injection E' as <- _. inversion Hf'; subst.
    destruct (dig_facts _ H1) as (_ & _ & _ & K & _). apply K. reflexivity.
Qed.

Lemma snorm_out (c nc : str) : snorm c nc -> sshape nc /\ nc <> [].
Proof.
  intros [-> -> | d1 d2 -> I1 I2 -> | -> -> | -> ->]; (split; [|discriminate]);
    [apply SSh_err; reflexivity | eapply SSh_dig; [reflexivity | exact I1 | exact I2] | apply SSh_err; reflexivity | apply SSh_und; reflexivity].
Qed.

Lemma snorm_fix (c nc nc' : str) : nc <> [] -> snorm nc nc' -> nc' = nc.
Proof. intros Hne [-> _ | d1 d2 _ _ _ -> | _ -> | _ ->]; [contradiction | reflexivity..]. Qed.

Lemma cshape_nonempty ds a : cshape ds a -> a <> [].
Proof. intros [w d -> _ _ _| -> | ->]; [destruct w; discriminate | discriminate | discriminate]. Qed.

Theorem TRS_trs_idem_some x : x <> [] -> TRS_trs (Some (TRS_trs (Some x))) = TRS_trs (Some x).
Proof.
  intros Hne. destruct (TRS_trs_spec x Hne) as [_ ->|a b c na nb nc _ Hy Ha Hb Hc]; [vm_compute; reflexivity|].
  rewrite Hy.
  pose proof (cnorm_out NS a na NS_low Ha) as Sa. pose proof (cnorm_out EW b nb EW_low Hb) as Sb.
  destruct (snorm_out c nc Hc) as [Sc Nc].
  assert (Hne' : na ++ nb ++ nc <> []) by (pose proof (cshape_nonempty _ _ Sa); destruct na; [contradiction | discriminate]).
  pose proof (TRS_trs_spec (na ++ nb ++ nc) Hne') as K.
  inversion K as [Hno _|a' b' c' na' nb' nc' Hx' Hy' Ha' Hb' Hc'].
  - exfalso. exact (unpacker_complete na nb nc Sa Sb Sc Hno).
  - etransitivity; [exact Hy'|]. destruct (cshape_unique NS na a' (nb ++ nc) (b' ++ c') NS_letters Sa (cnorm_in _ _ _ Ha') Hx') as [<- E1].
    destruct (cshape_unique EW nb b' nc c' EW_letters Sb (cnorm_in _ _ _ Hb') E1) as [<- <-].
    rewrite (cnorm_fix NS a na na' NS_letters NS_low Ha Ha'), (cnorm_fix EW b nb nb' EW_letters EW_low Hb Hb'), (snorm_fix c nc nc' Nc Hc').
    reflexivity.
Qed.

Theorem TRS_trs_idem : C12_idem_statement.
Proof.
  intros [[|c0 x]|]; [vm_compute; reflexivity | apply TRS_trs_idem_some; discriminate | vm_compute; reflexivity].
Qed.

(* ================================================================== *)
(* Strictness *)
Lemma cnorm_strict ds a na : cnorm ds a na -> na = lower a \/ (na = a /\ (a = MC_ERR_TWP \/ a = MC_UNDEF_TWP)).
Proof.
  intros [w d -> _ Hf _ ->| -> -> | -> ->]; [left | right; split; [reflexivity | left; reflexivity] | right; split; [reflexivity | right; reflexivity]].
  rewrite lower_app, (lower_digits _ Hf). reflexivity.
Qed.

Theorem TRS_strict : C12_strict_statement.
Proof.
  intros x Hne. destruct (TRS_trs_spec x Hne) as [_ Hy|a b c na nb nc Hx Hy Ha Hb Hc]; [left; exact Hy|].
  right. exists a, b, c, na, nb, nc. split; [exact Hx|]. split; [exact Hy|].
  split; [exact (cnorm_strict _ _ _ Ha)|]. split; [exact (cnorm_strict _ _ _ Hb)|].
  destruct Hc as [-> -> | d1 d2 _ _ _ -> | _ -> | _ ->]; [right; split; reflexivity | left; reflexivity..].
Qed.

(* ================================================================== *)
(* construct_trs: the three component theorems compose *)
Lemma legal_ns c : is_ns c = true -> mem_str (lower [c]) MC_LEGAL_NS = true.
Proof. intros H. destruct (is_ns_cases _ H) as [<-|[<-|[]]]; reflexivity. Qed.
Lemma legal_ew c : is_ew c = true -> mem_str (lower [c]) MC_LEGAL_EW = true.
Proof. intros H. destruct (is_ew_cases _ H) as [<-|[<-|[]]]; reflexivity. Qed.

Lemma scrub_KNS_indep x dns dew dew' ocr : scrub x KNS dns dew ocr = scrub x KNS dns dew' ocr.
Proof. destruct x; reflexivity. Qed.
Lemma scrub_KEW_indep x dns dns' dew ocr : scrub x KEW dns dew ocr = scrub x KEW dns' dew ocr.
Proof. destruct x; reflexivity. Qed.
Lemma scrub_KSEC_indep x dns dns' dew dew' ocr : scrub x KSEC dns dew ocr = scrub x KSEC dns' dew' ocr.
Proof. destruct x; reflexivity. Qed.

Definition construct_body (twp rge sec : tin) (dns dew : str) (ocr : bool) : Py str :=
  if negb (mem_str (lower dns) MC_LEGAL_NS) then Raise DefaultNSError
  else if negb (mem_str (lower dew) MC_LEGAL_EW) then Raise DefaultEWError
  else
    let '(twp', ns) := scrub twp KNS dns dew ocr in
    let '(rge', ew) := scrub rge KEW dns dew ocr in
    let '(sec', _) := scrub sec KSEC dns dew ocr in
    let ns := match ns with Some d => d | None => dns end in
    let ew := match ew with Some d => d | None => dew end in
    Ok (finish_twprge twp' ns MC_UNDEF_TWP MC_ERR_TWP inl_trs_twp inl_trs_twp_ng
        ++ finish_twprge rge' ew MC_UNDEF_RGE MC_ERR_RGE inl_trs_rge inl_trs_rge_ng
        ++ finish_sec sec').

Lemma construct_trs_body twp rge sec odns odew ocr mns mew :
  construct_trs twp rge sec odns odew ocr mns mew =
  construct_body twp rge sec (match odns with Some d => d | None => mns end) (match odew with Some d => d | None => mew end) ocr.
Proof. reflexivity. Qed.

Lemma construct_core t r sc ns ew (dn de : N) et er es :
  (t < 1000)%N -> (r < 1000)%N -> (sc < 100)%N ->
  is_ns ns = true -> is_ew ew = true -> is_ns dn = true -> is_ew de = true -> (es = EInt \/ es = EStr) ->
  construct_body (encode et t ns) (encode er r ew) (encode es sc 0%N) [dn] [de] false
  = Ok (canon_trs t (if enc_has_dir et then ns else dn) r (if enc_has_dir er then ew else de) sc).
Proof.
  intros Ht Hr Hsc Hns Hew Hdn Hde Hes. unfold construct_body.
  rewrite (legal_ns _ Hdn), (legal_ew _ Hde). cbn [negb].
  pose proof (twp_component t ns dn et Ht Hns Hdn) as K1. unfold twp_ok in K1.
  rewrite (scrub_KNS_indep _ [dn] [119%N] [de]) in K1. destruct (scrub (encode et t ns) KNS [dn] [de] false) as [x1 d1].
  pose proof (rge_component r ew de er Hr Hew Hde) as K2. unfold rge_ok in K2.
  rewrite (scrub_KEW_indep _ [110%N] [dn] [de]) in K2. destruct (scrub (encode er r ew) KEW [dn] [de] false) as [x2 d2].
  pose proof (sec_component sc es Hsc Hes) as K3. unfold sec_ok in K3.
  rewrite (scrub_KSEC_indep _ [110%N] [dn] [119%N] [de]) in K3. destruct (scrub (encode es sc 0%N) KSEC [dn] [de] false) as [x3 d3].
  apply str_eqb_true in K1, K2, K3. rewrite K1, K2, K3. unfold canon_trs. rewrite <- !app_assoc. reflexivity.
Qed.

Theorem TRS_construct : C12_construct_statement.
Proof.
  intros t r sc ns ew dns dew mns mew et er es odns odew Ht Hr Hsc Hns Hew Hdns Hdew Hmns Hmew Hes eff_ns eff_ew.
  subst eff_ns eff_ew. rewrite construct_trs_body. destruct odns, odew; apply construct_core; assumption.
Qed.

(* ================================================================== *)
(* Decomposition of the canonical string *)
Lemma fullmatch_groups x mo : fullmatch trs_unpacker_regex G x = Some mo ->
  exists a b c, x = a ++ b ++ c /\
    group x mo 1 = Some a /\ comp_shape DIG XS ZS US NS a (group x mo 2) (group x mo 3) (group x mo 4) /\
    group x mo 5 = Some b /\ comp_shape DIG XS ZS US EW b (group x mo 6) (group x mo 7) (group x mo 8) /\
    ((c = [] /\ group x mo 9 = None) \/ (sec_shape DIG XS US c /\ group x mo 9 = Some c)).
Proof.
  intros Hfm. unfold fullmatch in Hfm. rewrite st_at_full in Hfm.
  destruct (m trs_unpacker_regex _ _ _) as [y|] eqn:Em; [|discriminate]. injection Hfm as <-.
  destruct (m_path _ _ _ _ _ Em) as (p & Hin & Hk). destruct (rest (fst p)) eqn:Hend; [|discriminate]. injection Hk as <-.
  rewrite regex_shape in Hin. change G with 9 in Hin.
  destruct (unpacker_inv DIG NS EW XS ZS US x p Hin Hend) as (a & b & c & H). exists a, b, c. exact H.
Qed.

Definition dict_of (g : nat -> option str) : trsdict :=
  let lw := lower in
  let '(twp, twp_num, twp_ns, twp_undef) :=
    if nonempty (g 3) && nonempty (g 4) then
      (match g 1 with Some v => lw v | None => MC_ERR_TWP end,
       match g 3 with Some v => py_int v | None => None end,
       option_map lw (g 4), false)
    else if opt_str_eqb (g 1) MC_UNDEF_TWP then (MC_UNDEF_TWP, None, None, true)
    else (MC_ERR_TWP, None, None, false) in
  let '(rge, rge_num, rge_ew, rge_undef) :=
    if nonempty (g 7) && nonempty (g 8) then
      (match g 5 with Some v => lw v | None => MC_ERR_RGE end,
       match g 7 with Some v => py_int v | None => None end,
       option_map lw (g 8), false)
    else if opt_str_eqb (g 5) MC_UNDEF_RGE then (MC_UNDEF_RGE, None, None, true)
    else (MC_ERR_RGE, None, None, false) in
  let '(sec, sec_num, sec_undef) :=
    match g 9 with
    | Some v => match py_int v with
                | Some z => (Some v, Some z, false)
                | None => if str_eqb v MC_UNDEF_SEC then (Some v, None, true) else (Some MC_ERR_SEC, None, false)
                end
    | None => (Some MC_ERR_SEC, None, false)
    end in
  mktrsdict (twp ++ rge ++ match sec with Some v => v | None => [78; 111; 110; 101]%N end)
            twp twp_num twp_ns twp_undef rge rge_num rge_ew rge_undef sec sec_num sec_undef.

Lemma trs_to_dict_match x mo : x <> [] -> fullmatch trs_unpacker_regex G x = Some mo ->
  trs_to_dict (Some x) = dict_of (fun i => group x mo i).
Proof. intros Hne Hfm. unfold trs_to_dict. destruct x as [|c0 x']; [contradiction|]. rewrite Hfm. reflexivity. Qed.

Definition optZ_eqb (a : option Z) (b : Z) : bool := match a with Some z => (z =? b)%Z | None => false end.
Definition num_ok (t : N) : bool :=
  let w := str_of_N t in
  (1 <=? length w) && (length w <=? 3) && forallb (fun c => in_ranges c DIG) w && optZ_eqb (py_int w) (Z.of_N t).
Definition sec2_ok (sc : N) : bool :=
  let c := rjust 2 48%N (str_of_N sc) in
  (length c =? 2) && forallb (fun c => in_ranges c DIG) c && optZ_eqb (py_int c) (Z.of_N sc).

Lemma num_sweep : forallb num_ok (Nrange 1000) = true. Proof. vm_compute. reflexivity. Qed.
Lemma sec2_sweep : forallb sec2_ok (Nrange 100) = true. Proof. vm_compute. reflexivity. Qed.

Lemma forallb_Forall {A} (f : A -> bool) l : forallb f l = true -> Forall (fun x => f x = true) l.
Proof. intros H. apply Forall_forall. intros x Hx. exact (proj1 (forallb_forall f l) H x Hx). Qed.

Lemma optZ_eqb_eq a b : optZ_eqb a b = true -> a = Some b.
Proof. destruct a as [z|]; cbn; [|discriminate]. intros H. apply Z.eqb_eq in H. congruence. Qed.

Lemma num_facts t : (t < 1000)%N ->
  1 <= length (str_of_N t) <= 3 /\ Forall (inset DIG) (str_of_N t) /\ py_int (str_of_N t) = Some (Z.of_N t).
Proof.
  intros Ht. pose proof (forallb_In _ _ num_sweep t (Nrange_in 1000 t Ht)) as K. unfold num_ok in K. cbv zeta in K.
  apply andb_true_iff in K. destruct K as [K K4]. apply andb_true_iff in K. destruct K as [K K3]. apply andb_true_iff in K. destruct K as [K1 K2].
  apply Nat.leb_le in K1, K2. split; [lia|]. split; [exact (forallb_Forall _ _ K3) | exact (optZ_eqb_eq _ _ K4)].
Qed.

Lemma sec2_facts sc : (sc < 100)%N ->
  exists d1 d2, rjust 2 48%N (str_of_N sc) = [d1; d2] /\ inset DIG d1 /\ inset DIG d2 /\ py_int [d1; d2] = Some (Z.of_N sc).
Proof.
  intros Hs. pose proof (forallb_In _ _ sec2_sweep sc (Nrange_in 100 sc Hs)) as K. unfold sec2_ok in K. cbv zeta in K.
  apply andb_true_iff in K. destruct K as [K K3]. apply andb_true_iff in K. destruct K as [K1 K2]. apply Nat.eqb_eq in K1.
  destruct (rjust 2 48%N (str_of_N sc)) as [|d1 [|d2 [|d3 l]]]; try discriminate K1.
  cbn [forallb] in K2. apply andb_true_iff in K2. destruct K2 as [I1 K2]. apply andb_true_iff in K2. destruct K2 as [I2 _].
  exists d1, d2. repeat split; [exact I1 | exact I2 | exact (optZ_eqb_eq _ _ K3)].
Qed.

Lemma comp_shape_cshape ds a gi gn gd : comp_shape DIG XS ZS US ds a gi gn gd -> cshape ds a.
Proof.
  intros [w d Ha Hl Hf Hd _ _ _|c1 c2 c3 c4 Ha I1 I2 I3 I4 _ _ _|c1 c2 c3 c4 Ha I1 I2 I3 I4 _ _ _].
  - eapply CSh_valid; eassumption.
  - apply XS_point in I1, I2, I3. apply ZS_point in I4. subst. apply CSh_err. reflexivity.
  - apply US_point in I1, I2, I3. apply ZS_point in I4. subst. apply CSh_und. reflexivity.
Qed.

(* a component known to be digits + letter took the valid branch, and its inner groups are its two parts *)
Lemma comp_shape_valid ds w d gi gn gd :
  letters_ok ds -> 1 <= length w -> Forall (inset DIG) w -> inset ds d ->
  comp_shape DIG XS ZS US ds (w ++ [d]) gi gn gd -> gn = Some w /\ gd = Some [d].
Proof.
  intros Hds Hl Hf Hd [w' d' Ha Hl' Hf' Hd' _ -> ->|c1 c2 c3 c4 Ha I1 _ _ _ _ _ _|c1 c2 c3 c4 Ha I1 _ _ _ _ _ _].
  - destruct (digit_prefix_unique w w' d d' [] [] Hf Hf' (Hds _ Hd) (Hds _ Hd') Ha) as (-> & -> & _). auto.
  - exfalso. destruct w as [|c w]; [cbn in Hl; lia|]. cbn in Ha. injection Ha as -> _. inversion Hf; subst.
    destruct (dig_facts _ H1) as (_ & _ & _ & _ & _ & _ & _ & _ & K & _). unfold inset in I1. congruence.
  - exfalso. destruct w as [|c w]; [cbn in Hl; lia|]. cbn in Ha. injection Ha as -> _. inversion Hf; subst.
    destruct (dig_facts _ H1) as (_ & _ & _ & _ & _ & _ & _ & _ & _ & _ & K). unfold inset in I1. congruence.
Qed.

Lemma is_ns_inset c : is_ns c = true -> inset NS c /\ lower [c] = [c].
Proof. intros H. destruct (is_ns_cases _ H) as [<-|[<-|[]]]; split; reflexivity. Qed.
Lemma is_ew_inset c : is_ew c = true -> inset EW c /\ lower [c] = [c].
Proof. intros H. destruct (is_ew_cases _ H) as [<-|[<-|[]]]; split; reflexivity. Qed.

Theorem TRS_decompose : C12_decompose_statement.
Proof.
  intros t r sc ns ew Ht Hr Hsc Hns Hew.
  destruct (num_facts t Ht) as (LA & FA & PA). destruct (num_facts r Hr) as (LB & FB & PB).
  destruct (sec2_facts sc Hsc) as (d1 & d2 & EC & I1 & I2 & PC).
  destruct (is_ns_inset _ Hns) as [Ins Lns]. destruct (is_ew_inset _ Hew) as [Iew Lew].
  unfold canon_trs. rewrite EC. set (A := str_of_N t) in *. set (B := str_of_N r) in *. set (C := [d1; d2]) in *.
  replace (A ++ [ns] ++ B ++ [ew] ++ C) with ((A ++ [ns]) ++ (B ++ [ew]) ++ C) by (rewrite <- !app_assoc; reflexivity).
  set (x := (A ++ [ns]) ++ (B ++ [ew]) ++ C).
  assert (Sa : cshape NS (A ++ [ns])) by (eapply CSh_valid; [reflexivity | exact LA | exact FA | exact Ins]).
  assert (Sb : cshape EW (B ++ [ew])) by (eapply CSh_valid; [reflexivity | exact LB | exact FB | exact Iew]).
  assert (Sc : sshape C) by (eapply SSh_dig; [reflexivity | exact I1 | exact I2]).
  assert (Hne : x <> []) by (pose proof (cshape_nonempty _ _ Sa); unfold x; destruct (A ++ [ns]); [contradiction | discriminate]).
  pose proof (unpacker_complete _ _ _ Sa Sb Sc) as Hm. fold x in Hm.
  destruct (fullmatch trs_unpacker_regex G x) as [mo|] eqn:Hfm; [|contradiction]. clear Hm.
  etransitivity; [exact (trs_to_dict_match x mo Hne Hfm)|].
  destruct (fullmatch_groups x mo Hfm) as (a' & b' & c' & Hx & G1 & S1 & G5 & S5 & S9).
  destruct (cshape_unique NS (A ++ [ns]) a' _ _ NS_letters Sa (comp_shape_cshape _ _ _ _ _ S1) Hx) as [<- E1].
  destruct (cshape_unique EW (B ++ [ew]) b' _ _ EW_letters Sb (comp_shape_cshape _ _ _ _ _ S5) E1) as [<- <-].
  destruct (comp_shape_valid NS A ns _ _ _ NS_letters ltac:(lia) FA Ins S1) as [G3 G4].
  destruct (comp_shape_valid EW B ew _ _ _ EW_letters ltac:(lia) FB Iew S5) as [G7 G8].
  assert (G9 : group x mo 9 = Some C) by (destruct S9 as [[K _]|[_ K]]; [discriminate K | exact K]).
  unfold dict_of. cbv zeta. rewrite G1, G3, G4, G5, G7, G8, G9.
  assert (NA : nonempty (@Some (list N) A) = true) by (destruct A; [cbn in LA; lia | reflexivity]).
  assert (NB : nonempty (@Some (list N) B) = true) by (destruct B; [cbn in LB; lia | reflexivity]).
  rewrite NA, NB. cbn [nonempty andb option_map].
  rewrite !lower_app, (lower_digits _ FA), (lower_digits _ FB), Lns, Lew, PA, PB, PC.
  unfold x. rewrite <- !app_assoc. reflexivity.
Qed.

(* ================================================================== *)
(* Dictionary-level idempotence: the attributes ARE the decomposition of the final string *)
Definition comp_fields (g1 gn gd : option str) (undef err : str) : str * option Z * option str * bool :=
  if nonempty gn && nonempty gd then
    (match g1 with Some v => lower v | None => err end, match gn with Some v => py_int v | None => None end, option_map lower gd, false)
  else if opt_str_eqb g1 undef then (undef, None, None, true) else (err, None, None, false).

Definition sec_fields (g9 : option str) : option str * option Z * bool :=
  match g9 with
  | Some v => match py_int v with
              | Some z => (Some v, Some z, false)
              | None => if str_eqb v MC_UNDEF_SEC then (Some v, None, true) else (Some MC_ERR_SEC, None, false)
              end
  | None => (Some MC_ERR_SEC, None, false)
  end.

Definition dict_of_fields (F1 F2 : str * option Z * option str * bool) (F3 : option str * option Z * bool) : trsdict :=
  let '(twp, twp_num, twp_ns, twp_undef) := F1 in
  let '(rge, rge_num, rge_ew, rge_undef) := F2 in
  let '(sec, sec_num, sec_undef) := F3 in
  mktrsdict (twp ++ rge ++ match sec with Some v => v | None => [78; 111; 110; 101]%N end)
            twp twp_num twp_ns twp_undef rge rge_num rge_ew rge_undef sec sec_num sec_undef.

Lemma dict_of_split g : dict_of g =
  dict_of_fields (comp_fields (g 1) (g 3) (g 4) MC_UNDEF_TWP MC_ERR_TWP) (comp_fields (g 5) (g 7) (g 8) MC_UNDEF_RGE MC_ERR_RGE) (sec_fields (g 9)).
Proof. reflexivity. Qed.

Inductive cfields (ds : list (N * N)) (a : str) (F : str * option Z * option str * bool) : Prop :=
| CF_valid w d : a = w ++ [d] -> 1 <= length w <= 3 -> Forall (inset DIG) w -> inset ds d ->
                 F = (w ++ lower [d], py_int w, Some (lower [d]), false) -> cfields ds a F
| CF_err : a = ERR4 -> F = (ERR4, None, None, false) -> cfields ds a F
| CF_und : a = UND4 -> F = (UND4, None, None, true) -> cfields ds a F.

Lemma comp_fields_rel ds a gi gn gd :
  comp_shape DIG XS ZS US ds a gi gn gd -> cfields ds a (comp_fields (Some a) gn gd UND4 ERR4).
Proof.
  intros [w d Ha Hl Hf Hd _ -> ->|c1 c2 c3 c4 Ha I1 I2 I3 I4 _ -> ->|c1 c2 c3 c4 Ha I1 I2 I3 I4 _ -> ->].
  - eapply CF_valid; try eassumption. unfold comp_fields.
    replace (nonempty (Some w)) with true by (destruct w; [cbn in Hl; lia | reflexivity]). cbn [nonempty andb option_map].
    rewrite Ha, lower_app, (lower_digits _ Hf). reflexivity.
  - apply XS_point in I1, I2, I3. apply ZS_point in I4. subst. apply CF_err; reflexivity.
  - apply US_point in I1, I2, I3. apply ZS_point in I4. subst. apply CF_und; reflexivity.
Qed.

Lemma cfields_cshape ds a F : cfields ds a F -> cshape ds a.
Proof. intros [w d Ha Hl Hf Hd _|Ha _|Ha _]; [eapply CSh_valid; eassumption | apply CSh_err; exact Ha | apply CSh_und; exact Ha]. Qed.

Lemma not_dig_88 : ~ inset DIG 88%N.
Proof. intros K. destruct (dig_facts _ K) as (_ & _ & _ & _ & _ & _ & _ & _ & K' & _). discriminate K'. Qed.
Lemma not_dig_95 : ~ inset DIG 95%N.
Proof. intros K. destruct (dig_facts _ K) as (_ & _ & _ & K' & _). apply K'. reflexivity. Qed.

Lemma cfields_fun ds a F F' : letters_ok ds -> cfields ds a F -> cfields ds a F' -> F = F'.
Proof.
  intros Hds H H'.
  destruct H as [w d -> Hl Hf Hd ->| -> -> | -> ->]; destruct H' as [w' d' E Hl' Hf' Hd' ->| E -> | E ->]; try reflexivity; try discriminate E.
  - destruct (digit_prefix_unique w w' d d' [] [] Hf Hf' (Hds _ Hd) (Hds _ Hd') E) as (-> & -> & _). reflexivity.
  - exfalso. destruct w as [|c w]; [cbn in Hl; lia|]. cbn in E. injection E as -> _. inversion Hf; subst. exact (not_dig_88 H1).
  - exfalso. destruct w as [|c w]; [cbn in Hl; lia|]. cbn in E. injection E as -> _. inversion Hf; subst. exact (not_dig_95 H1).
  - exfalso. destruct w' as [|c w']; [cbn in Hl'; lia|]. cbn in E. injection E as <- _. inversion Hf'; subst. exact (not_dig_88 H1).
  - exfalso. destruct w' as [|c w']; [cbn in Hl'; lia|]. cbn in E. injection E as <- _. inversion Hf'; subst. exact (not_dig_95 H1).
Qed.

Definition f1 (F : str * option Z * option str * bool) : str := let '(a, _, _, _) := F in a.

(* the fields computed for the normalised component are the same fields *)
Lemma cfields_norm ds a F : low_closed ds -> cfields ds a F -> cfields ds (f1 F) F.
Proof.
  intros Hlow [w d Ha Hl Hf Hd ->| _ -> | _ ->]; cbn [f1]; [|apply CF_err; reflexivity | apply CF_und; reflexivity].
  destruct (Hlow d Hd) as (dl & L & Hdl & Ldl). rewrite L. eapply CF_valid; [reflexivity | exact Hl | exact Hf | exact Hdl|]. rewrite Ldl. reflexivity.
Qed.

Inductive sfields (c : str) (F : option str * option Z * bool) : Prop :=
| SF_none : c = [] -> F = (Some MC_ERR_SEC, None, false) -> sfields c F
| SF_dig d1 d2 z : c = [d1; d2] -> inset DIG d1 -> inset DIG d2 -> py_int c = Some z -> F = (Some c, Some z, false) -> sfields c F
| SF_err : c = MC_ERR_SEC -> F = (Some MC_ERR_SEC, None, false) -> sfields c F
| SF_und : c = MC_UNDEF_SEC -> F = (Some MC_UNDEF_SEC, None, true) -> sfields c F.

Lemma sec_fields_rel c o :
  ((c = [] /\ o = None) \/ (sec_shape DIG XS US c /\ o = Some c)) -> sfields c (sec_fields o).
Proof.
  intros [[-> ->]|[H ->]]; [apply SF_none; reflexivity|].
  destruct H as [d1 d2 -> I1 I2|c1 c2 -> I1 I2|c1 c2 -> I1 I2].
  - unfold sec_fields. destruct (py_int [d1; d2]) as [z|] eqn:E; [|exfalso; exact (py_int_two_digits _ _ I1 I2 E)].
    apply (SF_dig _ _ d1 d2 z); auto.
  - apply XS_point in I1, I2. subst. apply SF_err; reflexivity.
  - apply US_point in I1, I2. subst. apply SF_und; reflexivity.
Qed.

Definition s1 (F : option str * option Z * bool) : str := let '(o, _, _) := F in match o with Some v => v | None => [] end.

Lemma sfields_sshape (c : str) F : sfields c F -> sshape c.
Proof.
  intros [Hc _|d1 d2 z Hc I1 I2 _ _|Hc _|Hc _]; [apply SSh_none; exact Hc | eapply SSh_dig; eassumption | apply SSh_err; exact Hc | apply SSh_und; exact Hc].
Qed.

Lemma sfields_norm (c : str) F : sfields c F -> sfields (s1 F) F /\ s1 F <> [].
Proof.
  intros [-> ->|d1 d2 z -> I1 I2 P ->| -> -> | -> ->]; cbn [s1]; (split; [|discriminate]).
  - apply SF_err; reflexivity.
  - eapply SF_dig; eauto.
  - apply SF_err; reflexivity.
  - apply SF_und; reflexivity.
Qed.

Lemma sfields_fun (c : str) F F' : c <> [] -> sfields c F -> sfields c F' -> F = F'.
Proof.
  intros Hne H H'.
  destruct H as [Hc _|d1 d2 z -> I1 I2 P ->| -> -> | -> ->]; [contradiction | | |];
    destruct H' as [E _|e1 e2 z' E J1 J2 P' ->|E ->|E ->]; try discriminate E; try reflexivity.
  - injection E as <- <-. rewrite P in P'. injection P' as <-. reflexivity.
  - exfalso. injection E as -> ->. exact (not_dig_88 I1).
  - exfalso. injection E as -> ->. exact (not_dig_95 I1).
  - exfalso. injection E as <- <-. exact (not_dig_88 J1).
  - exfalso. injection E as <- <-. exact (not_dig_95 J1).
Qed.

(* the dictionary of any matched string, in terms of its decomposition *)
Lemma dict_of_matched x mo : x <> [] -> fullmatch trs_unpacker_regex G x = Some mo ->
  exists a b c F1 F2 F3, x = a ++ b ++ c /\ cfields NS a F1 /\ cfields EW b F2 /\ sfields c F3 /\
    trs_to_dict (Some x) = dict_of_fields F1 F2 F3.
Proof.
  intros Hne Hfm. destruct (fullmatch_groups x mo Hfm) as (a & b & c & Hx & G1 & S1 & G5 & S5 & S9).
  exists a, b, c. eexists. eexists. eexists. split; [exact Hx|].
  split; [exact (comp_fields_rel NS a _ _ _ S1)|]. split; [exact (comp_fields_rel EW b _ _ _ S5)|]. split; [exact (sec_fields_rel c _ S9)|].
  etransitivity; [exact (trs_to_dict_match x mo Hne Hfm)|]. rewrite dict_of_split. cbv beta. rewrite G1, G5. reflexivity.
Qed.

Theorem trs_to_dict_idem_some x : x <> [] -> trs_to_dict (Some (d_trs (trs_to_dict (Some x)))) = trs_to_dict (Some x).
Proof.
  intros Hne. destruct (fullmatch trs_unpacker_regex G x) as [mo|] eqn:Hfm.
  - destruct (dict_of_matched x mo Hne Hfm) as (a & b & c & F1 & F2 & F3 & Hx & C1 & C2 & C3 & ->).
    destruct F1 as [[[na n1] d1] u1] eqn:E1. destruct F2 as [[[nb n2] d2] u2] eqn:E2. destruct F3 as [[oc n3] u3] eqn:E3.
    cbn [dict_of_fields d_trs]. rewrite <- E1 in C1. rewrite <- E2 in C2. rewrite <- E3 in C3.
    pose proof (cfields_norm NS a F1 NS_low C1) as N1. pose proof (cfields_norm EW b F2 EW_low C2) as N2.
    destruct (sfields_norm c F3 C3) as [N3 Nne].
    rewrite E1 in N1. rewrite E2 in N2. rewrite E3 in N3, Nne. cbn [f1] in N1, N2. cbn [s1] in N3, Nne.
    destruct oc as [nc|]; [|exfalso; apply Nne; reflexivity]. cbv iota in N3, Nne |- *.
    set (y := na ++ nb ++ nc).
    pose proof (cfields_cshape _ _ _ N1) as Sa. pose proof (cfields_cshape _ _ _ N2) as Sb. pose proof (sfields_sshape _ _ N3) as Sc.
    assert (Hney : y <> []) by (pose proof (cshape_nonempty _ _ Sa); unfold y; destruct na; [contradiction | discriminate]).
    pose proof (unpacker_complete _ _ _ Sa Sb Sc) as Hm. fold y in Hm.
    destruct (fullmatch trs_unpacker_regex G y) as [mo'|] eqn:Hfm'; [|contradiction]. clear Hm.
    destruct (dict_of_matched y mo' Hney Hfm') as (a' & b' & c' & F1' & F2' & F3' & Hy & C1' & C2' & C3' & Ed).
    etransitivity; [exact Ed|].
    destruct (cshape_unique NS na a' _ _ NS_letters Sa (cfields_cshape _ _ _ C1') Hy) as [<- Ey].
    destruct (cshape_unique EW nb b' _ _ EW_letters Sb (cfields_cshape _ _ _ C2') Ey) as [<- <-].
    rewrite (cfields_fun NS na _ _ NS_letters C1' N1), (cfields_fun EW nb _ _ EW_letters C2' N2), (sfields_fun nc _ _ Nne C3' N3).
    reflexivity.
  - rewrite (trs_of_nomatch x Hne Hfm).
    unfold trs_to_dict at 2. destruct x as [|c0 x']; [contradiction|]. rewrite Hfm. vm_compute. reflexivity.
Qed.

(* for every argument of TRS(...): the attributes are the decomposition of the final string *)
Theorem trs_to_dict_idem : forall x : option str, trs_to_dict (Some (d_trs (trs_to_dict x))) = trs_to_dict x.
Proof.
  intros [[|c0 x]|]; [vm_compute; reflexivity | apply trs_to_dict_idem_some; discriminate | vm_compute; reflexivity].
Qed.
