(* Proofs/C12/Match.v -- what a full match of the TRS unpacker pattern looks like, for EVERY string:
   the text is tiled by the twp, rge and (optional) sec groups, each of one of three shapes, and
   the inner groups are set exactly when the valid shape was taken.  Derived from the all-paths
   semantics of the engine (Engine/RegexSpec.v), generically in the six character sets. *)
From Coq Require Import List NArith ZArith Arith Bool Lia.
From PyTRS Require Import Engine.Regex Engine.RegexSpec Gen.Patterns PyRt.Str.
Import ListNotations.

Definition four (x z : list (N * N)) : re := Seq (Chr x) (Seq (Chr x) (Seq (Chr x) (Chr z))).
Definition comp (gi gn gd : nat) (dig ds x z u : list (N * N)) : re :=
  Alt (Grp gi (Seq (Grp gn (Rep 1 (Some 3) (Chr dig))) (Grp gd (Chr ds)))) (Alt (four x z) (four u z)).
Definition secre (dig x u : list (N * N)) : re :=
  Alt (Rep 2 (Some 2) (Chr dig)) (Alt (Seq (Chr x) (Chr x)) (Seq (Chr u) (Chr u))).
Definition unpacker (dig ns ew x z u : list (N * N)) : re :=
  Seq (Grp 1 (comp 2 3 4 dig ns x z u))
      (Seq (Grp 5 (comp 6 7 8 dig ew x z u)) (Rep 0 (Some 1) (Grp 9 (secre dig x u)))).

Definition inset (cs : list (N * N)) (c : N) : Prop := in_ranges c cs = true.

Definition gslice (x : str) (g : caps) (i : nat) : option str :=
  match getg g i with Some (a, b) => Some (slice x a b) | None => None end.

Lemma group_gslice t mo i : group t mo i = gslice t (mcaps mo) i.
Proof. reflexivity. Qed.

Lemma gslice_eq x g1 g2 i : getg g1 i = getg g2 i -> gslice x g1 i = gslice x g2 i.
Proof. unfold gslice. intros ->. reflexivity. Qed.

Section Inv.
Variables dig ns ew xs zs us : list (N * N).

Lemma four_inv x z s g p :
  In p (ms (four x z) s g) ->
  exists c1 c2 c3 c4, inset x c1 /\ inset x c2 /\ inset x c3 /\ inset z c4 /\ ext s [c1; c2; c3; c4] (fst p) /\ snd p = g.
Proof.
  unfold four. intros H.
  apply in_ms_seq in H. destruct H as (q1 & H1 & H). apply in_ms_seq in H. destruct H as (q2 & H2 & H).
  apply in_ms_seq in H. destruct H as (q3 & H3 & H4).
  destruct (ext_chr _ _ _ _ H1) as (c1 & I1 & E1 & G1). destruct (ext_chr _ _ _ _ H2) as (c2 & I2 & E2 & G2).
  destruct (ext_chr _ _ _ _ H3) as (c3 & I3 & E3 & G3). destruct (ext_chr _ _ _ _ H4) as (c4 & I4 & E4 & G4).
  exists c1, c2, c3, c4. refine (conj I1 (conj I2 (conj I3 (conj I4 (conj _ _))))).
  - exact (ext_trans _ _ _ _ _ E1 (ext_trans _ _ _ _ _ E2 (ext_trans _ _ _ _ _ E3 E4))).
  - congruence.
Qed.

Lemma two_inv x s g p :
  In p (ms (Seq (Chr x) (Chr x)) s g) -> exists c1 c2, inset x c1 /\ inset x c2 /\ ext s [c1; c2] (fst p) /\ snd p = g.
Proof.
  intros H. apply in_ms_seq in H. destruct H as (q1 & H1 & H2).
  destruct (ext_chr _ _ _ _ H1) as (c1 & I1 & E1 & G1). destruct (ext_chr _ _ _ _ H2) as (c2 & I2 & E2 & G2).
  exists c1, c2. refine (conj I1 (conj I2 (conj _ _))); [exact (ext_trans _ _ _ _ _ E1 E2) | congruence].
Qed.

(* shape of one Twp or Rge component, with the values of its three groups *)
Inductive comp_shape (ds : list (N * N)) (a : str) (gi gn gd : option str) : Prop :=
| CS_valid w d : a = w ++ [d] -> 1 <= length w <= 3 -> Forall (inset dig) w -> inset ds d ->
                 gi = Some a -> gn = Some w -> gd = Some [d] -> comp_shape ds a gi gn gd
| CS_x c1 c2 c3 c4 : a = [c1; c2; c3; c4] -> inset xs c1 -> inset xs c2 -> inset xs c3 -> inset zs c4 ->
                 gi = None -> gn = None -> gd = None -> comp_shape ds a gi gn gd
| CS_u c1 c2 c3 c4 : a = [c1; c2; c3; c4] -> inset us c1 -> inset us c2 -> inset us c3 -> inset zs c4 ->
                 gi = None -> gn = None -> gd = None -> comp_shape ds a gi gn gd.

Lemma comp_inv gi gn gd ds s g p x :
  wf_st s -> text_of s = x -> gi < length g -> gn < length g -> gd < length g ->
  gi <> gn -> gi <> gd -> gn <> gd ->
  getg g gi = None -> getg g gn = None -> getg g gd = None ->
  In p (ms (comp gi gn gd dig ds xs zs us) s g) ->
  exists a, ext s a (fst p) /\ length (snd p) = length g /\
    (forall j, j <> gi -> j <> gn -> j <> gd -> getg (snd p) j = getg g j) /\
    comp_shape ds a (gslice x (snd p) gi) (gslice x (snd p) gn) (gslice x (snd p) gd).
Proof.
  intros Hwf Hx Li Ln Ld Nin Nid Nnd Gi Gn Gd H. unfold comp in H.
  apply in_ms_alt in H. destruct H as [H|H].
  - apply in_ms_grp in H. destruct H as (q & Hq & ->). apply in_ms_seq in Hq. destruct Hq as (q1 & H1 & H2).
    apply in_ms_grp in H1. destruct H1 as (q0 & H0 & ->). apply in_ms_rep in H0. destruct H0 as (n & Hc & Hb).
    destruct (chain_chr _ _ _ _ _ Hc) as (w & Hl & Hf & E0 & G0). cbn [fst snd] in H2.
    apply in_ms_grp in H2. destruct H2 as (q' & H' & ->). destruct (ext_chr _ _ _ _ H') as (d & Hd & E' & G'). cbn [fst snd] in *.
    rewrite G', G0.
    assert (Eall : ext s (w ++ [d]) (fst q')) by exact (ext_trans _ _ _ _ _ E0 E').
    assert (Hwf0 : wf_st (fst q0)) by exact (extends_wf _ _ (ext_extends _ _ _ E0) Hwf).
    assert (Hx0 : text_of (fst q0) = x) by (rewrite (extends_text _ _ (ext_extends _ _ _ E0)); exact Hx).
    exists (w ++ [d]). split; [exact Eall|]. split; [rewrite !setg_length; reflexivity|]. split.
    + intros j J1 J2 J3. rewrite !getg_setg_other by congruence. reflexivity.
    + eapply CS_valid; try reflexivity.
      * destruct Hb as [B1 B2]. cbn in B2. lia.
      * exact Hf.
      * exact Hd.
      * unfold gslice. rewrite getg_setg_same by (rewrite !setg_length; exact Li). rewrite <- Hx, (ext_slice _ _ _ Hwf Eall). reflexivity.
      * unfold gslice. rewrite getg_setg_other by congruence. rewrite getg_setg_other by congruence.
        rewrite getg_setg_same by exact Ln. rewrite <- Hx, (ext_slice _ _ _ Hwf E0). reflexivity.
      * unfold gslice. rewrite getg_setg_other by congruence. rewrite getg_setg_same by (rewrite setg_length; exact Ld).
        rewrite <- Hx0, (ext_slice _ _ _ Hwf0 E'). reflexivity.
  - apply in_ms_alt in H.
    assert (Hnone : forall k, getg g k = None -> gslice x g k = None) by (intros k Hk; unfold gslice; rewrite Hk; reflexivity).
    destruct H as [H|H]; destruct (four_inv _ _ _ _ _ H) as (c1 & c2 & c3 & c4 & I1 & I2 & I3 & I4 & E & G);
      exists [c1; c2; c3; c4]; rewrite G; (split; [exact E|]); (split; [reflexivity|]); (split; [reflexivity|]).
    + eapply CS_x; try reflexivity; auto.
    + eapply CS_u; try reflexivity; auto.
Qed.

Inductive sec_shape (c : str) : Prop :=
| SS_dig d1 d2 : c = [d1; d2] -> inset dig d1 -> inset dig d2 -> sec_shape c
| SS_x c1 c2 : c = [c1; c2] -> inset xs c1 -> inset xs c2 -> sec_shape c
| SS_u c1 c2 : c = [c1; c2] -> inset us c1 -> inset us c2 -> sec_shape c.

Lemma secre_inv s g p : In p (ms (secre dig xs us) s g) -> exists c, ext s c (fst p) /\ snd p = g /\ sec_shape c.
Proof.
  unfold secre. intros H. apply in_ms_alt in H. destruct H as [H|H].
  - apply in_ms_rep in H. destruct H as (n & Hc & [B1 B2]). cbn in B2.
    destruct (chain_chr _ _ _ _ _ Hc) as (w & Hl & Hf & E & G).
    destruct w as [|d1 [|d2 [|d3 w]]]; cbn in Hl; try lia.
    exists [d1; d2]. split; [exact E|]. split; [exact G|].
    inversion Hf as [|? ? F1 Hf']; subst. inversion Hf' as [|? ? F2 _]; subst. eapply SS_dig; [reflexivity | exact F1 | exact F2].
  - apply in_ms_alt in H. destruct H as [H|H]; destruct (two_inv _ _ _ _ H) as (c1 & c2 & I1 & I2 & E & G);
      exists [c1; c2]; (split; [exact E|]); (split; [exact G|]).
    + eapply SS_x; [reflexivity | exact I1 | exact I2].
    + eapply SS_u; [reflexivity | exact I1 | exact I2].
Qed.

Lemma chain0_inv b s g p : chain b 0 s g p -> p = (s, g).
Proof. intros H. inversion H. reflexivity. Qed.

Lemma chain1_inv b s g p : chain b 1 s g p -> In p (ms b s g).
Proof.
  intros H. inversion H as [|n s' g' q p' Hq Hc]; subst. apply chain0_inv in Hc. subst p. destruct q; exact Hq.
Qed.

(* every complete path through the unpacker *)
Theorem unpacker_inv x p :
  In p (ms (unpacker dig ns ew xs zs us) (mkst [] x 0) (init_caps 9)) -> rest (fst p) = [] ->
  exists a b c, x = a ++ b ++ c /\
    gslice x (snd p) 1 = Some a /\ comp_shape ns a (gslice x (snd p) 2) (gslice x (snd p) 3) (gslice x (snd p) 4) /\
    gslice x (snd p) 5 = Some b /\ comp_shape ew b (gslice x (snd p) 6) (gslice x (snd p) 7) (gslice x (snd p) 8) /\
    ((c = [] /\ gslice x (snd p) 9 = None) \/ (sec_shape c /\ gslice x (snd p) 9 = Some c)).
Proof.
  intros H Hend. unfold unpacker in H. set (s0 := mkst [] x 0) in *. set (g0 := init_caps 9) in *.
  assert (Hwf0 : wf_st s0) by reflexivity. assert (Hx0 : text_of s0 = x) by reflexivity.
  assert (L0 : length g0 = 10) by reflexivity.
  assert (N0 : forall k, getg g0 k = None).
  { intros k. unfold getg, g0, init_caps. destruct (nth_error (repeat None 10) k) as [o|] eqn:E; [|reflexivity].
    apply nth_error_In, repeat_spec in E. subst o. reflexivity. }
  apply in_ms_seq in H. destruct H as (q1 & H1 & H). apply in_ms_grp in H1. destruct H1 as (q1' & H1 & ->).
  destruct (comp_inv 2 3 4 ns s0 g0 q1' x Hwf0 Hx0) as (a & Ea & La & Fa & Sa); try (rewrite L0; lia); try lia; try apply N0; [exact H1|].
  cbn [fst snd] in H. set (s1 := fst q1') in *. set (c1 := setg (snd q1') 1 (idx s0, idx s1)) in *.
  assert (Hwf1 : wf_st s1) by exact (extends_wf _ _ (ext_extends _ _ _ Ea) Hwf0).
  assert (Hx1 : text_of s1 = x) by (rewrite (extends_text _ _ (ext_extends _ _ _ Ea)); exact Hx0).
  assert (L1 : length c1 = 10) by (unfold c1; rewrite setg_length; congruence).
  apply in_ms_seq in H. destruct H as (q2 & H2 & H). apply in_ms_grp in H2. destruct H2 as (q2' & H2 & ->).
  assert (N1 : forall k, k <> 1 -> k <> 2 -> k <> 3 -> k <> 4 -> getg c1 k = None).
  { intros k K1 K2 K3 K4. unfold c1. rewrite getg_setg_other by congruence. rewrite Fa by assumption. apply N0. }
  destruct (comp_inv 6 7 8 ew s1 c1 q2' x Hwf1 Hx1) as (b & Eb & Lb & Fb & Sb); try (rewrite L1; lia); try lia; try (apply N1; lia); [exact H2|].
  cbn [fst snd] in H. set (s2 := fst q2') in *. set (c2 := setg (snd q2') 5 (idx s1, idx s2)) in *.
  assert (Hwf2 : wf_st s2) by exact (extends_wf _ _ (ext_extends _ _ _ Eb) Hwf1).
  assert (Hx2 : text_of s2 = x) by (rewrite (extends_text _ _ (ext_extends _ _ _ Eb)); exact Hx1).
  assert (L2 : length c2 = 10) by (unfold c2; rewrite setg_length; congruence).
  (* group values in c2 *)
  assert (G1 : gslice x c2 1 = Some a).
  { unfold gslice, c2. rewrite getg_setg_other by lia. rewrite Fb by lia. unfold c1. rewrite getg_setg_same by lia.
    rewrite <- Hx0, (ext_slice _ _ _ Hwf0 Ea). reflexivity. }
  assert (G234 : forall k, k = 2 \/ k = 3 \/ k = 4 -> gslice x c2 k = gslice x (snd q1') k).
  { intros k K. apply gslice_eq. unfold c2. rewrite getg_setg_other by lia. rewrite Fb by lia. unfold c1. rewrite getg_setg_other by lia. reflexivity. }
  assert (G5 : gslice x c2 5 = Some b).
  { unfold gslice, c2. rewrite getg_setg_same by lia. rewrite <- Hx1, (ext_slice _ _ _ Hwf1 Eb). reflexivity. }
  assert (G678 : forall k, k = 6 \/ k = 7 \/ k = 8 -> gslice x c2 k = gslice x (snd q2') k).
  { intros k K. apply gslice_eq. unfold c2. rewrite getg_setg_other by lia. reflexivity. }
  assert (G9 : getg c2 9 = None).
  { unfold c2. rewrite getg_setg_other by lia. rewrite Fb by lia. apply N1; lia. }
  apply in_ms_rep in H. destruct H as (n & Hc & [_ B2]). cbn in B2.
  assert (Hn : n = 0 \/ n = 1) by lia. destruct Hn as [-> | ->].
  - apply chain0_inv in Hc. subst p. cbn [fst snd] in *. exists a, b, [].
    split.
    { destruct Ea as (_ & Ra & _). destruct Eb as (_ & Rb & _). cbn [rest s0] in Ra. fold s1 in Ra. rewrite Ra, Rb. fold s2. rewrite Hend. reflexivity. }
    split; [exact G1|]. split; [rewrite !G234 by auto; exact Sa|]. split; [exact G5|]. split; [rewrite !G678 by auto; exact Sb|].
    left. split; [reflexivity|]. unfold gslice. rewrite G9. reflexivity.
  - apply chain1_inv in Hc. apply in_ms_grp in Hc. destruct Hc as (q3 & H3 & ->). cbn [fst snd] in *.
    destruct (secre_inv _ _ _ H3) as (c & Ec & Gc & Sc). rewrite Gc.
    assert (O : forall k, k <> 9 -> gslice x (setg c2 9 (idx s2, idx (fst q3))) k = gslice x c2 k).
    { intros k K. apply gslice_eq. rewrite getg_setg_other by lia. reflexivity. }
    exists a, b, c. split.
    { destruct Ea as (_ & Ra & _). destruct Eb as (_ & Rb & _). destruct Ec as (_ & Rc & _). cbn [rest s0] in Ra. fold s1 in Ra.
      rewrite Ra, Rb. fold s2. rewrite Rc, Hend, app_nil_r. reflexivity. }
    rewrite !O by lia. split; [exact G1|]. split; [rewrite !G234 by auto; exact Sa|]. split; [exact G5|]. split; [rewrite !G678 by auto; exact Sb|].
    right. split; [exact Sc|]. unfold gslice. rewrite getg_setg_same by lia. rewrite <- Hx2, (ext_slice _ _ _ Hwf2 Ec). reflexivity.
Qed.
End Inv.
