(* Proofs/C05/Unpack.v -- the right-to-left unpack loops of SecUnpacker / LotUnpacker expand an
   elided list to exactly the numbers it denotes.  The regex step is abstract: the theorems hold
   for ANY step function, given the stream of (number, "through" to its left) it yields. *)
From Coq Require Import List NArith ZArith Arith Bool Lia.
From Coq Require String.
From PyTRS Require Import Engine.Regex Gen.Patterns PyRt.Str Gen.Tables Model.Trs Model.Unpack.
Import ListNotations.
Import String.StringSyntax.
Local Open Scope string_scope.

(* ---------------- the specification, in reading order ---------------- *)
(* n, n+-1, ... up to but excluding m, in the stated direction; empty when n = m *)
Definition upto (n m : Z) : list Z :=
  if (n <? m)%Z then zrange_up (Z.to_nat (m - n)) n
  else zrange_down (Z.to_nat (n - m)) n.

(* a list of numbers, each with "a through-connective stands to its left" *)
Fixpoint expand_ro (l : list (bool * Z)) : list Z :=
  match l with
  | [] => []
  | (_, n) :: rest =>
      match rest with
      | [] => [n]
      | (t', m) :: _ => (if t' then upto n m else [n]) ++ expand_ro rest
      end
  end.

(* the same, on the right-to-left token stream the loop consumes *)
Fixpoint spec_tail (m : Z) (t : bool) (rem : list (Z * bool)) : list Z :=
  match rem with
  | [] => []
  | (n, t') :: rem' => spec_tail n t' rem' ++ (if t then upto n m else [n])
  end.
Definition spec_rl (toks : list (Z * bool)) : list Z :=
  match toks with [] => [] | (n, t) :: rem => spec_tail n t rem ++ [n] end.

(* ---------------- the loop on numbers ---------------- *)
Definition adds (n e : Z) : list Z := snd (elided n e).

Fixpoint run_rl (ft : bool) (W : list Z) (rem : list (Z * bool)) : list Z :=
  match rem with
  | [] => W
  | (n, t) :: rem' =>
      run_rl t (if ft then match rev W with e :: _ => W ++ adds n e | [] => W end else W ++ [n]) rem'
  end.

Lemma zrange_down_snoc : forall k b, zrange_down (S k) b = zrange_down k b ++ [(b - Z.of_nat k)%Z].
Proof.
  induction k as [|k IH]; intros b.
  - cbn. f_equal. lia.
  - change (zrange_down (S (S k)) b) with (b :: zrange_down (S k) (b - 1)%Z).
    rewrite IH. change (zrange_down (S k) b) with (b :: zrange_down k (b - 1)%Z).
    cbn [app]. f_equal. f_equal. f_equal. lia.
Qed.
Lemma zrange_up_snoc : forall k b, zrange_up (S k) b = zrange_up k b ++ [(b + Z.of_nat k)%Z].
Proof.
  induction k as [|k IH]; intros b.
  - cbn. f_equal. lia.
  - change (zrange_up (S (S k)) b) with (b :: zrange_up (S k) (b + 1)%Z).
    rewrite IH. change (zrange_up (S k) b) with (b :: zrange_up k (b + 1)%Z).
    cbn [app]. f_equal. f_equal. f_equal. lia.
Qed.

Lemma zrange_down_rev : forall k a, rev (zrange_down k a) = zrange_up k (a - Z.of_nat k + 1)%Z.
Proof.
  induction k as [|k IH]; intros a; [reflexivity|].
  rewrite zrange_down_snoc, rev_app_distr. cbn [rev app]. rewrite IH.
  change (zrange_up (S k) (a - Z.of_nat (S k) + 1)%Z)
    with ((a - Z.of_nat (S k) + 1)%Z :: zrange_up k (a - Z.of_nat (S k) + 1 + 1)%Z).
  f_equal; [lia | f_equal; lia].
Qed.

Lemma zrange_up_rev : forall k a, rev (zrange_up k a) = zrange_down k (a + Z.of_nat k - 1)%Z.
Proof.
  induction k as [|k IH]; intros a; [reflexivity|].
  rewrite zrange_up_snoc, rev_app_distr. cbn [rev app]. rewrite IH.
  change (zrange_down (S k) (a + Z.of_nat (S k) - 1)%Z)
    with ((a + Z.of_nat (S k) - 1)%Z :: zrange_down k (a + Z.of_nat (S k) - 1 - 1)%Z).
  f_equal; [lia | f_equal; lia].
Qed.

(* the numbers the loop appends for "n through e", reversed, read n ... up to but excluding e *)
Lemma adds_rev n e : rev (adds n e) = upto n e.
Proof.
  unfold adds, elided, upto. destruct (n <? e)%Z eqn:E; cbn [snd].
  - apply Z.ltb_lt in E. rewrite zrange_down_rev. f_equal; lia.
  - apply Z.ltb_ge in E. rewrite zrange_up_rev.
    destruct (Z.eq_dec n e) as [->|Hne].
    + rewrite Z.sub_diag. reflexivity.
    + f_equal; lia.
Qed.

Lemma run_rl_spec : forall rem m t W,
  rev (run_rl t (W ++ [m]) rem) = spec_tail m t rem ++ m :: rev W.
Proof.
  induction rem as [|[n t'] rem IH]; intros m t W; cbn [run_rl spec_tail].
  - rewrite rev_app_distr. reflexivity.
  - destruct t.
    + rewrite rev_app_distr. cbn [rev app].
      destruct (Z.eq_dec n m) as [->|Hne].
      * assert (A : adds m m = []) by (unfold adds, elided; rewrite Z.ltb_irrefl, Z.sub_diag; reflexivity).
        rewrite A, app_nil_r. rewrite IH.
        assert (U : upto m m = []) by (unfold upto; rewrite Z.ltb_irrefl, Z.sub_diag; reflexivity).
        rewrite U, app_nil_r. reflexivity.
      * assert (L : exists pre, adds n m = pre ++ [n]).
        { pose proof (adds_rev n m) as R. unfold upto in R.
          destruct (n <? m)%Z eqn:E.
          - apply Z.ltb_lt in E. destruct (Z.to_nat (m - n)) as [|k] eqn:K; [lia|].
            cbn [zrange_up] in R. exists (rev (zrange_up k (n + 1))).
            rewrite <- (rev_involutive (adds n m)), R. reflexivity.
          - apply Z.ltb_ge in E. destruct (Z.to_nat (n - m)) as [|k] eqn:K; [lia|].
            cbn [zrange_down] in R. exists (rev (zrange_down k (n - 1))).
            rewrite <- (rev_involutive (adds n m)), R. reflexivity. }
        destruct L as [pre Hp]. rewrite <- adds_rev. rewrite Hp.
        rewrite (app_assoc (W ++ [m]) pre [n]). rewrite IH.
        rewrite !rev_app_distr. cbn [rev app]. rewrite <- !app_assoc. cbn [app]. reflexivity.
    + rewrite <- app_assoc. change ([m] ++ [n]) with ([m; n]).
      replace (W ++ [m; n]) with ((W ++ [m]) ++ [n]) by (rewrite <- app_assoc; reflexivity).
      rewrite IH. rewrite rev_app_distr. cbn [rev app]. rewrite <- app_assoc. reflexivity.
Qed.

Theorem run_rl_correct toks : rev (run_rl false [] toks) = spec_rl toks.
Proof.
  destruct toks as [|[n t] rem]; [reflexivity|]. cbn [run_rl spec_rl].
  change ([] ++ [n]) with ([] ++ [n]). rewrite (run_rl_spec rem n t []). reflexivity.
Qed.

(* right-to-left stream vs reading order *)
Definition flip (l : list (bool * Z)) : list (Z * bool) := rev (map (fun p => (snd p, fst p)) l).

Lemma spec_tail_snoc : forall rem m t n0 t0,
  spec_tail m t (rem ++ [(n0, t0)]) =
    match rev rem with
    | [] => (if t then upto n0 m else [n0])
    | (n', t') :: _ => (if t' then upto n0 n' else [n0])
    end ++ spec_tail m t rem.
Proof.
  induction rem as [|[n t'] rem IH]; intros m t n0 t0; cbn [app spec_tail rev].
  - rewrite app_nil_r. reflexivity.
  - rewrite IH. rewrite <- app_assoc. f_equal.
    destruct (rev rem) as [|[n' t''] r'] eqn:E; cbn [app]; reflexivity.
Qed.

Theorem spec_rl_reading_order l : spec_rl (flip l) = expand_ro l.
Proof.
  unfold flip. induction l as [|[t n] rest IH]; [reflexivity|].
  cbn [map rev fst snd]. destruct rest as [|[t' m] rest'].
  - reflexivity.
  - cbn [map rev fst snd] in *. cbn [expand_ro].
    set (R := rev (map (fun p : bool * Z => (snd p, fst p)) rest')) in *.
    destruct ((R ++ [(m, t')])) as [|[x tx] rem] eqn:E.
    { destruct R; discriminate. }
    (* spec_rl ((x,tx)::rem ++ [(n,t)]) *)
    cbn [app spec_rl]. cbn [spec_rl] in IH.
    rewrite spec_tail_snoc. rewrite <- app_assoc. rewrite IH. f_equal.
    (* the leftmost neighbour of n in the stream is (m, t') *)
    assert (Hlast : match rev rem with [] => (x, tx) | y :: _ => y end = (m, t')).
    { assert (H : rev ((x, tx) :: rem) = (m, t') :: rev R) by (rewrite <- E, rev_app_distr; reflexivity).
      cbn [rev] in H. destruct (rev rem) as [|y r']; cbn [app] in H; inversion H; reflexivity. }
    destruct (rev rem) as [|[n' t''] r']; inversion Hlast; subst; reflexivity.
Qed.

(* ---------------- the model loop is run_rl, for any step function ---------------- *)
Inductive reads (step : nat -> option (Py rstep)) : nat -> list (Z * bool) -> Prop :=
| reads_nil e : step e = None -> reads step e []
| reads_cons e st n toks :
    step e = Some (Ok st) -> int_of_group (rs_num st) = Ok n ->
    reads step (rs_endpos st) toks -> reads step e ((n, rs_thru st) :: toks).

Definition small (z : Z) : Prop := (0 <= z <= 999)%Z.

Definition two_digit_sweep : bool :=
  forallb (fun i => match py_int (two_digit (Z.of_nat i)) with Some z => (z =? Z.of_nat i)%Z | None => false end) (seq 0 1000).
Lemma two_digit_sweep_true : two_digit_sweep = true.
Proof. vm_compute. reflexivity. Qed.

Lemma int_two_digit z : small z -> int_of_group (Some (two_digit z)) = Ok z.
Proof.
  intros [H1 H2]. pose proof two_digit_sweep_true as S. unfold two_digit_sweep in S.
  rewrite forallb_forall in S. specialize (S (Z.to_nat z)).
  rewrite Z2Nat.id in S by lia.
  assert (In (Z.to_nat z) (seq 0 1000)) by (apply in_seq; lia).
  specialize (S H). unfold int_of_group. destruct (py_int (two_digit z)) as [w|]; [|discriminate].
  apply Z.eqb_eq in S. subst. reflexivity.
Qed.

Fixpoint nonseq_flags (ft : bool) (W : list Z) (rem : list (Z * bool)) : list (Z * Z) :=
  match rem with
  | [] => []
  | (n, t) :: rem' =>
      let W' := if ft then match rev W with e :: _ => W ++ adds n e | [] => W end else W ++ [n] in
      (if ft then match rev W with e :: _ => if (n <? e)%Z then [] else [(n, e)] | [] => [] end else [])
      ++ nonseq_flags t W' rem'
  end.

Definition sec_flag := s "nonsequential_sections".
Definition sec_flag_line (p : Z * Z) : flagline :=
  (sec_flag, sec_flag ++ s "<" ++ str_of_Z (fst p) ++ s " - " ++ str_of_Z (snd p) ++ s ">").

Lemma adds_small n e : small n -> small e -> Forall small (adds n e).
Proof.
  intros Hn He. unfold adds, elided. destruct (n <? e)%Z eqn:E; cbn [snd].
  - apply Z.ltb_lt in E. remember (Z.to_nat (e - n)) as k.
    assert (G : forall k a, (a - Z.of_nat k + 1 >= 0)%Z -> (a <= 999)%Z -> Forall small (zrange_down k a)).
    { clear. induction k as [|k IH]; intros a H1 H2; cbn [zrange_down]; constructor.
      - unfold small. lia.
      - apply IH; lia. }
    apply G; unfold small in *; lia.
  - apply Z.ltb_ge in E.
    assert (G : forall k a, (a >= 0)%Z -> (a + Z.of_nat k - 1 <= 999)%Z -> Forall small (zrange_up k a)).
    { clear. induction k as [|k IH]; intros a H1 H2; cbn [zrange_up]; constructor.
      - unfold small. lia.
      - apply IH; lia. }
    apply G; unfold small in *; lia.
Qed.

Lemma last_or_map_two_digit W e : rev W = e :: nil \/ (exists r, rev W = e :: r) ->
  last_or (map two_digit W) = Ok (two_digit e).
Proof.
  intros H. assert (exists r, rev W = e :: r) as [r Hr] by (destruct H as [H|H]; [exists []; exact H | exact H]).
  unfold last_or. rewrite <- map_rev, Hr. reflexivity.
Qed.

Theorem sections_loop_is_run_rl step : forall toks fuel endpos ft W flags flines,
  reads step endpos toks ->
  Forall (fun p => small (fst p)) toks -> Forall small W ->
  (ft = true -> W <> []) ->
  length toks < fuel ->
  unpack_sections_loop step fuel endpos ft (map two_digit W) flags flines =
    Ok (mk_sec_unpacked (rev (map two_digit (run_rl ft W toks)))
                        (flags ++ map (fun _ => sec_flag) (nonseq_flags ft W toks))
                        (flines ++ map sec_flag_line (nonseq_flags ft W toks))).
Proof.
  induction toks as [|[n t] toks IH]; intros fuel endpos ft W flags flines Hr Hs HW Hne Hf.
  - inversion Hr; subst. destruct fuel; [cbn in Hf; lia|]. cbn [unpack_sections_loop].
    rewrite H. cbn. rewrite !app_nil_r. reflexivity.
  - inversion Hr as [|e st n' toks' Hstep Hint Hrest]; subst.
    destruct fuel as [|fuel]; [cbn in Hf; lia|]. cbn [unpack_sections_loop]. rewrite Hstep.
    cbn [bind]. rewrite Hint. cbn [bind].
    inversion Hs as [|p ps Hn Hs']; subst. cbn [fst] in Hn.
    destruct ft.
    + destruct (rev W) as [|e r] eqn:EW.
      { exfalso. apply (Hne eq_refl). destruct W; [reflexivity|]. cbn in EW.
        destruct (rev W); discriminate. }
      rewrite (last_or_map_two_digit W e) by (right; exists r; exact EW). cbn [bind].
      assert (He : small e).
      { rewrite Forall_forall in HW. apply HW. apply in_rev. rewrite EW. left. reflexivity. }
      rewrite (int_two_digit e He). cbn [bind].
      unfold elided at 1. fold (elided n e).
      destruct (elided n e) as [ok rng] eqn:El.
      assert (Hrng : rng = adds n e) by (unfold adds; rewrite El; reflexivity).
      assert (Hok : ok = (n <? e)%Z) by (unfold elided in El; destruct (n <? e)%Z; inversion El; reflexivity).
      subst rng.
      assert (HW' : Forall small (W ++ adds n e)) by (apply Forall_app; split; [exact HW | apply adds_small; assumption]).
      assert (Hne' : rs_thru st = true -> W ++ adds n e <> []) by (intros _ C; apply app_eq_nil in C; destruct C as [C _]; subst W; discriminate).
      destruct ok.
      * cbn [bind]. rewrite <- map_app. rewrite (IH fuel (rs_endpos st) (rs_thru st) (W ++ adds n e) flags flines Hrest Hs' HW' Hne') by (cbn in Hf; lia).
        cbn [run_rl nonseq_flags]. rewrite EW. rewrite <- Hok. cbn [app]. reflexivity.
      * cbn [bind]. rewrite <- map_app.
        rewrite (IH fuel (rs_endpos st) (rs_thru st) (W ++ adds n e) _ _ Hrest Hs' HW' Hne') by (cbn in Hf; lia).
        cbn [run_rl nonseq_flags]. rewrite EW. rewrite <- Hok. cbn [app map].
        rewrite <- !app_assoc. reflexivity.
    + cbn [bind]. change (map two_digit W ++ [two_digit n]) with (map two_digit W ++ map two_digit [n]).
      rewrite <- map_app.
      assert (HW' : Forall small (W ++ [n])) by (apply Forall_app; split; [exact HW | constructor; [exact Hn | constructor]]).
      assert (Hne' : rs_thru st = true -> W ++ [n] <> []) by (intros _ C; apply app_eq_nil in C; destruct C as [_ C]; discriminate).
      rewrite (IH fuel (rs_endpos st) (rs_thru st) (W ++ [n]) flags flines Hrest Hs' HW' Hne') by (cbn in Hf; lia).
      cbn [run_rl nonseq_flags app]. reflexivity.
Qed.

(* ---------------- lots: the same list logic ---------------- *)
Definition lot_name (z : Z) : str := s "L" ++ str_of_Z z.

Theorem lots_loop_is_run_rl step : forall toks fuel endpos ft st,
  reads step endpos toks ->
  (ft = true -> ls_working st <> []) ->
  length toks < fuel ->
  exists acres flags flines at_,
    unpack_lots_loop step fuel endpos ft st =
      Ok (mk_lot_unpacked (map lot_name (rev (run_rl ft (ls_working st) toks))) acres flags flines at_).
Proof.
  induction toks as [|[n t] toks IH]; intros fuel endpos ft st Hr Hne Hf.
  - inversion Hr; subst. destruct fuel; [cbn in Hf; lia|]. cbn [unpack_lots_loop]. rewrite H.
    do 4 eexists. reflexivity.
  - inversion Hr as [|e st0 n' toks' Hstep Hint Hrest]; subst.
    destruct fuel as [|fuel]; [cbn in Hf; lia|]. cbn [unpack_lots_loop]. rewrite Hstep.
    cbn [bind]. rewrite Hint. cbn [bind].
    destruct ft.
    + destruct (rev (ls_working st)) as [|e r] eqn:EW.
      { exfalso. apply (Hne eq_refl). destruct (ls_working st); [reflexivity|]. cbn in EW.
        destruct (rev l); discriminate. }
      unfold last_or. rewrite EW. cbn [bind].
      destruct (elided n e) as [ok rng] eqn:El.
      assert (Hrng : rng = adds n e) by (unfold adds; rewrite El; reflexivity). subst rng.
      cbn [run_rl]. rewrite EW.
      destruct ok; cbn [bind];
        match goal with |- context [unpack_lots_loop step fuel ?ep ?ft' ?st'] =>
          destruct (IH fuel ep ft' st') as (a & f & fl & at_ & E);
            [exact Hrest | | cbn in Hf; lia | ] end.
      all: try (intros _; destruct (rs_acreage st0); [destruct (assoc_str _ _)|];
                destruct (rs_word st0 && negb (rs_thru st0)); cbn [ls_working];
                intros C; apply app_eq_nil in C; destruct C as [C _]; rewrite C in EW; discriminate).
      all: rewrite E; do 4 eexists; f_equal; f_equal; f_equal; f_equal;
           destruct (rs_acreage st0); [destruct (assoc_str _ _)|];
           destruct (rs_word st0 && negb (rs_thru st0)); reflexivity.
    + cbn [bind run_rl].
      match goal with |- context [unpack_lots_loop step fuel ?ep ?ft' ?st'] =>
        destruct (IH fuel ep ft' st') as (a & f & fl & at_ & E);
          [exact Hrest | | cbn in Hf; lia | ] end.
      * intros _; destruct (rs_acreage st0); [destruct (assoc_str _ _)|];
          destruct (rs_word st0 && negb (rs_thru st0)); cbn [ls_working];
          intros C; apply app_eq_nil in C; destruct C as [_ C]; discriminate.
      * rewrite E. do 4 eexists. f_equal. f_equal. f_equal. f_equal.
        destruct (rs_acreage st0); [destruct (assoc_str _ _)|];
          destruct (rs_word st0 && negb (rs_thru st0)); reflexivity.
Qed.

(* ---------------- computing the stream of a concrete text (for examples / seam checks) ---------------- *)
Fixpoint stream_of (step : nat -> option (Py rstep)) (fuel endpos : nat) : option (list (Z * bool)) :=
  match fuel with
  | O => None
  | S f =>
      match step endpos with
      | None => Some []
      | Some (Ok st) =>
          match int_of_group (rs_num st), stream_of step f (rs_endpos st) with
          | Ok n, Some toks => Some ((n, rs_thru st) :: toks)
          | _, _ => None
          end
      | Some (Raise _) => None
      end
  end.

Lemma stream_of_reads step : forall fuel endpos toks, stream_of step fuel endpos = Some toks -> reads step endpos toks.
Proof.
  induction fuel as [|f IH]; intros endpos toks H; [discriminate|]. cbn [stream_of] in H.
  destruct (step endpos) as [[st|e]|] eqn:E; try discriminate.
  - destruct (int_of_group (rs_num st)) as [n|] eqn:En; [|discriminate].
    destruct (stream_of step f (rs_endpos st)) as [tk|] eqn:Es; [|discriminate].
    inversion H; subst. eapply reads_cons; eauto.
  - inversion H; subst. apply reads_nil. exact E.
Qed.

Lemma stream_of_length step : forall fuel endpos toks, stream_of step fuel endpos = Some toks -> length toks < fuel.
Proof.
  induction fuel as [|f IH]; intros endpos toks H; [discriminate|]. cbn [stream_of] in H.
  destruct (step endpos) as [[st|e]|]; try discriminate.
  - destruct (int_of_group (rs_num st)); [|discriminate].
    destruct (stream_of step f (rs_endpos st)) as [tk|] eqn:Es; [|discriminate].
    inversion H; subst. cbn. apply IH in Es. lia.
  - inversion H; subst. cbn. lia.
Qed.
