(* Proofs/C17/Sort.v -- the stable multi-pass sort of Model/Containers.v:
   permutation, sortedness, stability, lexicographic order of successive passes,
   errors last. *)
From Coq Require Import List NArith ZArith Arith Bool Lia Permutation Sorted.
From PyTRS Require Import Engine.Regex PyRt.Str Model.Trs Model.Containers.
Import ListNotations.

Section Generic.
  Context {A : Type}.

  Lemma insert_perm (le : A -> A -> bool) x l : Permutation (insert_by le x l) (x :: l).
  Proof.
    induction l as [|y t IH]; simpl; [reflexivity|].
    destruct (le x y); [reflexivity|].
    rewrite IH. apply perm_swap.
  Qed.

  Lemma isort_perm (le : A -> A -> bool) l : Permutation (isort le l) l.
  Proof.
    induction l as [|x t IH]; simpl; [reflexivity|].
    rewrite insert_perm. constructor. exact IH.
  Qed.

  (* stability: a class of mutually le-related elements keeps its input order *)
  Lemma insert_filter (le : A -> A -> bool) (p : A -> bool) x l :
    (forall a b, p a = true -> p b = true -> le a b = true) ->
    filter p (insert_by le x l) = if p x then x :: filter p l else filter p l.
  Proof.
    intros H. induction l as [|y t IH]; simpl.
    - destruct (p x); reflexivity.
    - destruct (le x y) eqn:Hle; simpl.
      + destruct (p x); reflexivity.
      + rewrite IH. destruct (p x) eqn:Hx; destruct (p y) eqn:Hy; try reflexivity.
        rewrite (H x y Hx Hy) in Hle. discriminate.
  Qed.

  Lemma isort_filter (le : A -> A -> bool) (p : A -> bool) l :
    (forall a b, p a = true -> p b = true -> le a b = true) ->
    filter p (isort le l) = filter p l.
  Proof.
    intros H. induction l as [|x t IH]; simpl; [reflexivity|].
    rewrite insert_filter by exact H. rewrite IH. reflexivity.
  Qed.

  (* one pass over a list already sorted by R yields the lexicographic order *)
  Definition klt (key : A -> Z) (rev : bool) (a b : A) : Prop :=
    if rev then (key b < key a)%Z else (key a < key b)%Z.
  Definition lexR (key : A -> Z) (rev : bool) (R : A -> A -> Prop) (a b : A) : Prop :=
    klt key rev a b \/ (key a = key b /\ R a b).

  Lemma kle_cases key rev a b :
    kle key rev a b = true -> klt key rev a b \/ key a = key b.
  Proof. unfold kle, klt. destruct rev; intros H; apply Z.leb_le in H; lia. Qed.

  Lemma kle_false key rev a b : kle key rev a b = false -> klt key rev b a.
  Proof. unfold kle, klt. destruct rev; intros H; apply Z.leb_gt in H; lia. Qed.

  Lemma lexR_kle_trans key rev R x y z :
    kle key rev x y = true -> lexR key rev R y z -> R x z -> lexR key rev R x z.
  Proof.
    unfold lexR, kle, klt. destruct rev; intros H1 [H2|[H2 _]] H3; apply Z.leb_le in H1;
      try (left; lia); (destruct (Z.eq_dec (key x) (key z)); [right; auto | left; lia]).
  Qed.

  Lemma insert_lex key rev (R : A -> A -> Prop) x l :
    StronglySorted (lexR key rev R) l -> Forall (R x) l ->
    StronglySorted (lexR key rev R) (insert_by (kle key rev) x l).
  Proof.
    induction l as [|y t IH]; intros Hs Hf; simpl.
    - constructor; constructor.
    - inversion Hs as [|y' t' Hst Hy]; subst. inversion Hf as [|y' t' Rxy Rxt]; subst.
      destruct (kle key rev x y) eqn:Hle.
      + constructor; [exact Hs|]. constructor.
        * destruct (kle_cases _ _ _ _ Hle) as [H|H]; [left; exact H | right; auto].
        * rewrite Forall_forall in *. intros z Hz.
          apply (lexR_kle_trans key rev R x y z Hle (Hy z Hz) (Rxt z Hz)).
      + constructor; [apply IH; assumption|].
        eapply Permutation_Forall; [symmetry; apply insert_perm|].
        constructor; [left; apply kle_false; exact Hle | exact Hy].
  Qed.

  Lemma py_sort_lex key rev (R : A -> A -> Prop) l :
    StronglySorted R l -> StronglySorted (lexR key rev R) (py_sort key rev l).
  Proof.
    unfold py_sort. induction l as [|x t IH]; intros Hs; simpl; [constructor|].
    inversion Hs as [|x' t' Hst Hx]; subst.
    apply insert_lex; [apply IH; exact Hst|].
    eapply Permutation_Forall; [symmetry; apply isort_perm | exact Hx].
  Qed.

  Lemma py_sort_perm key rev (l : list A) : Permutation (py_sort key rev l) l.
  Proof. apply isort_perm. Qed.

  Lemma py_sort_stable key rev (p : A -> bool) (l : list A) :
    (forall a b, p a = true -> p b = true -> key a = key b) ->
    filter p (py_sort key rev l) = filter p l.
  Proof.
    intros H. apply isort_filter. intros a b Ha Hb. unfold kle.
    rewrite (H a b Ha Hb). destruct rev; apply Z.leb_refl.
  Qed.

  (* sortedness w.r.t. the single key (R = True) *)
  Lemma py_sort_sorted key rev (l : list A) :
    StronglySorted (fun a b => kle key rev a b = true) (py_sort key rev l).
  Proof.
    assert (H : StronglySorted (lexR key rev (fun _ _ => True)) (py_sort key rev l)).
    { apply py_sort_lex. induction l; constructor; auto. apply Forall_forall; auto. }
    revert H. generalize (py_sort key rev l) as m. induction m as [|a m IH]; intros H; [constructor|].
    inversion H as [|a' m' Hm Ha]; subst. constructor; [apply IH; exact Hm|].
    rewrite Forall_forall in *. intros z Hz. specialize (Ha z Hz).
    unfold lexR, klt, kle in *. destruct Ha as [Ha|[Ha _]]; destruct rev; apply Z.leb_le; lia.
  Qed.

  Lemma SS_nth (R : A -> A -> Prop) l :
    StronglySorted R l -> forall i j a b, i < j -> nth_error l i = Some a -> nth_error l j = Some b -> R a b.
  Proof.
    induction 1 as [|x t Hs IH Hx]; intros i j a b Hij Hi Hj.
    - destruct i; discriminate.
    - destruct j as [|j]; [lia|]. destruct i as [|i]; simpl in *.
      + inversion Hi; subst. rewrite Forall_forall in Hx. apply Hx. eapply nth_error_In; eauto.
      + apply (IH i j a b); [lia | assumption | assumption].
  Qed.

  (* ---------------- successive passes ---------------- *)
  (* a pass = (key, rev); passes are applied left to right *)
  Definition passes (ks : list ((A -> Z) * bool)) (l : list A) : list A :=
    fold_left (fun l k => py_sort (fst k) (snd k) l) ks l.

  (* lexicographic order, most significant key first *)
  Fixpoint lexord (ks : list ((A -> Z) * bool)) (a b : A) : Prop :=
    match ks with
    | [] => True
    | k :: t => lexR (fst k) (snd k) (lexord t) a b
    end.

  Lemma passes_perm ks l : Permutation (passes ks l) l.
  Proof.
    revert l. induction ks as [|k t IH]; intros l; simpl; [reflexivity|].
    rewrite IH. apply py_sort_perm.
  Qed.

  Lemma passes_snoc ks k l : passes (ks ++ [k]) l = py_sort (fst k) (snd k) (passes ks l).
  Proof. unfold passes. rewrite fold_left_app. reflexivity. Qed.

  (* the last key applied is the most significant one *)
  Lemma passes_lex ks l : StronglySorted (lexord (rev ks)) (passes ks l).
  Proof.
    induction ks as [|k t IH] using rev_ind.
    - simpl. induction l; constructor; auto. apply Forall_forall; simpl; auto.
    - rewrite passes_snoc, rev_unit. simpl. apply py_sort_lex. exact IH.
  Qed.

  (* elements that agree on every key keep their input order *)
  Lemma passes_stable ks (p : A -> bool) l :
    (forall k, In k ks -> forall a b, p a = true -> p b = true -> fst k a = fst k b) ->
    filter p (passes ks l) = filter p l.
  Proof.
    revert l. induction ks as [|k t IH]; intros l H; simpl; [reflexivity|].
    rewrite IH by (intros k' Hk'; apply H; right; exact Hk').
    apply py_sort_stable. apply H. left. reflexivity.
  Qed.
End Generic.

(* ------------------------------------------------------------------ *)
(* the model's custom_sort                                             *)

Lemma sort_passes_perm : forall ks l l', sort_passes l ks = Ok l' -> Permutation l' l.
Proof.
  induction ks as [|k t IH]; intros l l' H; simpl in H.
  - inversion H. reflexivity.
  - destruct (parse_key k) as [a|e]; simpl in H; [|discriminate].
    apply IH in H. rewrite H. apply py_sort_perm.
Qed.

Lemma custom_sort_perm key reverse l l' :
  custom_sort key reverse l = Ok l' -> Permutation l' l.
Proof.
  unfold custom_sort. destruct key as [|c key']; [intros H; inversion H; reflexivity|].
  destruct (sort_passes l (normalize_key (c :: key'))) as [m|e] eqn:Hp; simpl; [|discriminate].
  intros H. inversion H; subst. apply sort_passes_perm in Hp.
  destruct reverse; [rewrite <- Hp; symmetry; apply Permutation_rev | exact Hp].
Qed.

(* the passes as (key function, rev) pairs; the defaults of each pass are computed from
   the list as it is at that pass -- a permutation of the input, so the same values *)
Lemma somes_perm {B} (l1 l2 : list (option B)) : Permutation l1 l2 -> Permutation (somes l1) (somes l2).
Proof.
  induction 1 as [|x l1 l2 H IH|x y l|l1 l2 l3 H1 IH1 H2 IH2]; simpl.
  - reflexivity.
  - destruct x; [constructor|]; exact IH.
  - destruct x, y; try reflexivity. apply perm_swap.
  - etransitivity; eauto.
Qed.

Definition zmax_list (l : list Z) : Z := match l with [] => 0%Z | n :: t => fold_left Z.max t n end.

Lemma fold_max_ge : forall t n x, ((x <= n)%Z \/ In x t) -> (x <= fold_left Z.max t n)%Z.
Proof.
  induction t as [|y t IH]; intros n x H; simpl.
  - destruct H as [H|[]]; exact H.
  - apply IH. destruct H as [H|[H|H]]; [left; lia | left; subst; lia | right; exact H].
Qed.

Lemma zmax_list_ge l x : In x l -> (x <= zmax_list l)%Z.
Proof.
  destruct l as [|n t]; [intros []|]. intros H. unfold zmax_list. apply fold_max_ge.
  destruct H as [H|H]; [left; subst; lia | right; exact H].
Qed.

Lemma fold_max_in : forall t n, fold_left Z.max t n = n \/ In (fold_left Z.max t n) t.
Proof.
  induction t as [|y t IH]; intros n; simpl; [left; reflexivity|].
  destruct (IH (Z.max n y)) as [H|H].
  - rewrite H. destruct (Z.max_spec n y) as [[_ E]|[_ E]]; rewrite E; auto.
  - right. right. exact H.
Qed.

Lemma zmax_list_perm l1 l2 : Permutation l1 l2 -> zmax_list l1 = zmax_list l2.
Proof.
  intros H.
  assert (G : forall l1 l2, Permutation l1 l2 -> (zmax_list l1 <= zmax_list l2)%Z).
  { clear. intros l1 l2 H. destruct l1 as [|n t].
    - apply Permutation_nil in H. subst. reflexivity.
    - apply zmax_list_ge. apply (Permutation_in _ H). unfold zmax_list.
      destruct (fold_max_in t n) as [E|E]; [rewrite E; left; reflexivity | right; exact E]. }
  apply Z.le_antisymm; apply G; [exact H | symmetry; exact H].
Qed.

Lemma get_max_perm f l1 l2 : Permutation l1 l2 -> get_max f l1 = get_max f l2.
Proof.
  intros H. unfold get_max. change (zmax_list (somes (map f l1)) = zmax_list (somes (map f l2))).
  apply zmax_list_perm. apply somes_perm. apply Permutation_map. exact H.
Qed.

Lemma sort_key_perm l1 l2 d x : Permutation l1 l2 -> sort_key l1 d x = sort_key l2 d x.
Proof.
  intros H. unfold sort_key.
  rewrite (get_max_perm e_twp_num l1 l2 H), (get_max_perm e_rge_num l1 l2 H), (get_max_perm e_sec_num l1 l2 H).
  reflexivity.
Qed.

Lemma get_max_ge f l x z : In x l -> f x = Some z -> (z <= get_max f l)%Z.
Proof.
  intros Hin Hf. unfold get_max. change (z <= zmax_list (somes (map f l)))%Z.
  apply zmax_list_ge. clear -Hin Hf. induction l as [|y t IH]; [destruct Hin|].
  simpl. destruct Hin as [->|Hin].
  - rewrite Hf. left. reflexivity.
  - destruct (f y); [right|]; auto.
Qed.

(* with the defaults frozen to those of the input list, sort_passes is `passes` *)
Lemma py_sort_ext {A} (k1 k2 : A -> Z) rev l : (forall x, k1 x = k2 x) -> py_sort k1 rev l = py_sort k2 rev l.
Proof.
  intros H. unfold py_sort. induction l as [|x t IH]; simpl; [reflexivity|]. rewrite IH.
  generalize (isort (kle k2 rev) t) as m. induction m as [|y m IHm]; simpl; [reflexivity|].
  unfold kle at 1 3. rewrite !H. destruct rev; destruct (_ <=? _)%Z; rewrite ?IHm; reflexivity.
Qed.

Lemma sort_passes_as_passes l0 : forall ks l l' defs,
  Permutation l l0 ->
  parse_keys ks = Ok defs ->
  sort_passes l ks = Ok l' ->
  l' = passes (map (fun d => (sort_key l0 (fst d), snd d)) defs) l.
Proof.
  induction ks as [|k t IH]; intros l l' defs Hp Hk Hs; simpl in *.
  - inversion Hk; inversion Hs; subst. reflexivity.
  - destruct (parse_key k) as [a|e]; simpl in *; [|discriminate].
    destruct (parse_keys t) as [r|e]; simpl in *; [|discriminate].
    inversion Hk; subst; clear Hk. simpl.
    rewrite <- (py_sort_ext (sort_key l (fst a)) (sort_key l0 (fst a))) by (intros; apply sort_key_perm; exact Hp).
    eapply IH; eauto. rewrite py_sort_perm. exact Hp.
Qed.

Lemma sort_passes_parse : forall ks l l', sort_passes l ks = Ok l' -> exists defs, parse_keys ks = Ok defs.
Proof.
  induction ks as [|k t IH]; intros l l' H; simpl in *; [eexists; reflexivity|].
  destruct (parse_key k) as [a|e]; simpl in *; [|discriminate].
  apply IH in H. destruct H as [r Hr]. rewrite Hr. simpl. eexists; reflexivity.
Qed.

(* ------------------------------------------------------------------ *)
(* errors / undefined last                                             *)

Definition wf_elt (x : elt) : Prop :=
  (forall z, e_twp_num x = Some z -> (0 <= z)%Z) /\
  (forall z, e_rge_num x = Some z -> (0 <= z)%Z) /\
  (forall z, e_sec_num x = Some z -> (0 <= z)%Z) /\
  (e_twp_num x = None <-> e_twp_ns x = None) /\
  (e_rge_num x = None <-> e_rge_ew x = None).

(* is the element an error/undefined one for this sort definition? *)
Definition is_err (d : sortdef) (x : elt) : bool :=
  match d with
  | I_NUM => false
  | T_NUM | T_NS | T_SN => match e_twp_num x with None => true | _ => false end
  | R_NUM | R_WE | R_EW => match e_rge_num x with None => true | _ => false end
  | S_NUM => match e_sec_num x with None => true | _ => false end
  end.

Lemma err_key_gt l d a b :
  Forall wf_elt l -> In a l -> In b l -> is_err d a = true -> is_err d b = false ->
  (sort_key l d b < sort_key l d a)%Z.
Proof.
  intros Hwf Ha Hb Ea Eb. rewrite Forall_forall in Hwf.
  pose proof (Hwf a Ha) as (_ & _ & _ & Wa1 & Wa2).
  pose proof (Hwf b Hb) as (Pb1 & Pb2 & Pb3 & Wb1 & Wb2).
  destruct d; simpl in Ea, Eb; try discriminate; unfold sort_key, n_to_s, w_to_e, safe_num.
  - destruct (e_twp_num a); [discriminate|]. destruct (e_twp_num b) as [z|] eqn:E; [|discriminate].
    pose proof (get_max_ge e_twp_num l b z Hb E). lia.
  - destruct (e_twp_num a) eqn:Ea'; [discriminate|]. destruct (e_twp_num b) as [z|] eqn:E; [|discriminate].
    pose proof (get_max_ge e_twp_num l b z Hb E). pose proof (Pb1 z eq_refl).
    destruct Wa1 as [Wa1 _]. rewrite (Wa1 eq_refl).
    destruct (e_twp_ns b) as [[|]|]; lia.
  - destruct (e_twp_num a) eqn:Ea'; [discriminate|]. destruct (e_twp_num b) as [z|] eqn:E; [|discriminate].
    pose proof (get_max_ge e_twp_num l b z Hb E). pose proof (Pb1 z eq_refl).
    destruct Wa1 as [Wa1 _]. rewrite (Wa1 eq_refl).
    destruct (e_twp_ns b) as [[|]|] eqn:Eb'; lia.
  - destruct (e_rge_num a); [discriminate|]. destruct (e_rge_num b) as [z|] eqn:E; [|discriminate].
    pose proof (get_max_ge e_rge_num l b z Hb E). lia.
  - destruct (e_rge_num a) eqn:Ea'; [discriminate|]. destruct (e_rge_num b) as [z|] eqn:E; [|discriminate].
    pose proof (get_max_ge e_rge_num l b z Hb E). pose proof (Pb2 z eq_refl).
    destruct Wa2 as [Wa2 _]. rewrite (Wa2 eq_refl).
    destruct (e_rge_ew b) as [[|]|]; lia.
  - destruct (e_rge_num a) eqn:Ea'; [discriminate|]. destruct (e_rge_num b) as [z|] eqn:E; [|discriminate].
    pose proof (get_max_ge e_rge_num l b z Hb E). pose proof (Pb2 z eq_refl).
    destruct Wa2 as [Wa2 _]. rewrite (Wa2 eq_refl).
    destruct (e_rge_ew b) as [[|]|] eqn:Eb'; lia.
  - destruct (e_sec_num a); [discriminate|]. destruct (e_sec_num b) as [z|] eqn:E; [|discriminate].
    pose proof (get_max_ge e_sec_num l b z Hb E). lia.
Qed.

(* a single pass: every error element comes after every valid one (before, if reversed) *)
Lemma errors_last l d rev i j a b :
  Forall wf_elt l ->
  let l' := py_sort (sort_key l d) rev l in
  nth_error l' i = Some a -> nth_error l' j = Some b ->
  is_err d a = true -> is_err d b = false ->
  if rev then i < j else j < i.
Proof.
  intros Hwf l' Hi Hj Ea Eb.
  assert (Ha : In a l) by (apply (Permutation_in _ (py_sort_perm (sort_key l d) rev l)); eapply nth_error_In; eauto).
  assert (Hb : In b l) by (apply (Permutation_in _ (py_sort_perm (sort_key l d) rev l)); eapply nth_error_In; eauto).
  pose proof (err_key_gt l d a b Hwf Ha Hb Ea Eb) as Hlt.
  pose proof (py_sort_sorted (sort_key l d) rev l) as Hs.
  assert (Hne : i <> j) by (intros ->; rewrite Hi in Hj; inversion Hj; subst; rewrite Ea in Eb; discriminate).
  destruct rev.
  - destruct (Nat.lt_ge_cases i j) as [|Hge]; [assumption|]. assert (j < i) by lia.
    pose proof (SS_nth _ _ Hs j i b a H Hj Hi) as K. unfold kle in K. apply Z.leb_le in K. lia.
  - destruct (Nat.lt_ge_cases j i) as [|Hge]; [assumption|]. assert (i < j) by lia.
    pose proof (SS_nth _ _ Hs i j a b H Hi Hj) as K. unfold kle in K. apply Z.leb_le in K. lia.
Qed.
