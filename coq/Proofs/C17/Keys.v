(* Proofs/C17/Keys.v -- the key grammar of _sort_custom, decided by computation on the
   regenerated pattern `pat` and table `legal_methods`. *)
From Coq Require Import List NArith ZArith Arith Bool Lia Permutation Sorted.
From Coq Require String.
From PyTRS Require Import Engine.Regex Gen.Patterns PyRt.Str Gen.Tables Model.Trs Model.Containers
     Proofs.C17.Sort.
Import ListNotations.
Import String.StringSyntax.
Local Open Scope string_scope.

Definition vars : list str := [s "i"; s "t"; s "r"; s "s"].
Definition methods : list (option str) := [None; Some (s "ns"); Some (s "sn"); Some (s "ew"); Some (s "we"); Some (s "num")].
Definition revs : list (option str) := [None; Some (s "rev")].

Definition render_key (v : str) (m r : option str) : str :=
  v ++ match m with Some x => s "." ++ x | None => [] end
    ++ match r with Some x => s "." ++ x | None => [] end.

(* what the property says a key part means *)
Definition expected_def (v : str) (m : option str) : option sortdef :=
  sortdef_of v (match m with Some x => x | None => s "num" end).

Definition py_eqb {A} (eqb : A -> A -> bool) (x y : Py A) : bool :=
  match x, y with
  | Ok a, Ok b => eqb a b
  | Raise e1, Raise e2 => match e1, e2 with ValueError, ValueError => true | _, _ => false end
  | _, _ => false
  end.

Definition sortdef_eqb (a b : sortdef) : bool :=
  match a, b with
  | I_NUM, I_NUM | T_NUM, T_NUM | T_NS, T_NS | T_SN, T_SN | R_NUM, R_NUM | R_WE, R_WE | R_EW, R_EW | S_NUM, S_NUM => true
  | _, _ => false
  end.

Definition key_ok (v : str) (m r : option str) : bool :=
  py_eqb (fun a b => sortdef_eqb (fst a) (fst b) && Bool.eqb (snd a) (snd b))
         (parse_key (render_key v m r))
         (match expected_def v m with
          | Some d => Ok (d, match r with Some _ => true | None => false end)
          | None => Raise ValueError
          end).

Definition keys_sweep : bool :=
  forallb (fun v => forallb (fun m => forallb (key_ok v m) revs) methods) vars.

Lemma keys_sweep_true : keys_sweep = true.
Proof. vm_compute. reflexivity. Qed.

Lemma keys_all v m r : In v vars -> In m methods -> In r revs -> key_ok v m r = true.
Proof.
  intros Hv Hm Hr. pose proof keys_sweep_true as H. unfold keys_sweep in H.
  rewrite forallb_forall in H. specialize (H v Hv). rewrite forallb_forall in H.
  specialize (H m Hm). rewrite forallb_forall in H. exact (H r Hr).
Qed.

(* normalisation: case, whitespace, "reverse" *)
Lemma normalize_example :
  normalize_key (s " T.NS , s.Reverse,r .we.rev") = [s "t.ns"; s "s.rev"; s "r.we.rev"].
Proof. vm_compute. reflexivity. Qed.

(* the un-anchored search accepts parts that merely contain a variable letter *)
Lemma unknown_var_accepted : parse_key (s "x.ns") = Ok (S_NUM, false) /\ parse_key (s "foo.ns") = Ok (S_NUM, false).
Proof. vm_compute. split; reflexivity. Qed.

(* a part without any of the letters i, t, r, s is rejected -- for every such string *)
Lemma m_chr_fail cs r' st g k i :
  match rest st with c :: _ => in_ranges c cs = false | [] => True end ->
  m (Seq (Grp i (Chr cs)) r') st g k = None.
Proof.
  intros H. simpl. destruct (rest st) as [|c t]; [reflexivity|]. rewrite H. reflexivity.
Qed.

Lemma scan_chr_fail cs r' i ng : forall fuel ma st,
  Forall (fun c => in_ranges c cs = false) (rest st) ->
  scan fuel (Seq (Grp i (Chr cs)) r') ng ma st = None.
Proof.
  induction fuel as [|f IH]; intros ma st H.
  - simpl. unfold match_at. rewrite m_chr_fail; [reflexivity|].
    destruct (rest st); [exact I|]. inversion H; assumption.
  - simpl. unfold match_at. rewrite m_chr_fail.
    + unfold fwd. destruct (rest st) as [|c t] eqn:E; [reflexivity|].
      apply IH. simpl. inversion H; assumption.
    + destruct (rest st); [exact I|]. inversion H; assumption.
Qed.

Lemma search_chr_fail cs r' i ng t :
  Forall (fun c => in_ranges c cs = false) t ->
  search (Seq (Grp i (Chr cs)) r') ng t = None.
Proof.
  intros H. unfold search, search_pe.
  replace (length t <? 0) with false by (symmetry; apply Nat.ltb_ge; lia).
  unfold clip. rewrite Nat.min_id. rewrite Nat.min_0_l. apply scan_chr_fail.
  unfold st_at. simpl. rewrite firstn_all. exact H.
Qed.

Definition sort_var_cs : list (N * N) :=
  match inl_sort_pat with Seq (Grp _ (Chr cs)) _ => cs | _ => [] end.

Lemma no_var_rejected k :
  Forall (fun c => in_ranges c sort_var_cs = false) (lower k) ->
  parse_key k = Raise ValueError.
Proof.
  intros H. unfold parse_key.
  change inl_sort_pat with (Seq (Grp 1 (Chr sort_var_cs))
     (match inl_sort_pat with Seq _ r' => r' | _ => Eps end)).
  rewrite search_chr_fail by exact H. reflexivity.
Qed.

Example no_var_rejected_ex : parse_key (s "x.ne") = Raise ValueError /\ parse_key (s "") = Raise ValueError.
Proof. split; apply no_var_rejected; vm_compute; repeat constructor. Qed.
