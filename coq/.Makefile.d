Engine/Regex.vo Engine/Regex.glob Engine/Regex.v.beautified Engine/Regex.required_vo: Engine/Regex.v 
Engine/Regex.vio: Engine/Regex.v 
Engine/Regex.vos Engine/Regex.vok Engine/Regex.required_vos: Engine/Regex.v 
Gen/Patterns.vo Gen/Patterns.glob Gen/Patterns.v.beautified Gen/Patterns.required_vo: Gen/Patterns.v Engine/Regex.vo
Gen/Patterns.vio: Gen/Patterns.v Engine/Regex.vio
Gen/Patterns.vos Gen/Patterns.vok Gen/Patterns.required_vos: Gen/Patterns.v Engine/Regex.vos
Gen/PyTables.vo Gen/PyTables.glob Gen/PyTables.v.beautified Gen/PyTables.required_vo: Gen/PyTables.v 
Gen/PyTables.vio: Gen/PyTables.v 
Gen/PyTables.vos Gen/PyTables.vok Gen/PyTables.required_vos: Gen/PyTables.v 
PyRt/Str.vo PyRt/Str.glob PyRt/Str.v.beautified PyRt/Str.required_vo: PyRt/Str.v Engine/Regex.vo Gen/PyTables.vo
PyRt/Str.vio: PyRt/Str.v Engine/Regex.vio Gen/PyTables.vio
PyRt/Str.vos PyRt/Str.vok PyRt/Str.required_vos: PyRt/Str.v Engine/Regex.vos Gen/PyTables.vos
Gen/Tables.vo Gen/Tables.glob Gen/Tables.v.beautified Gen/Tables.required_vo: Gen/Tables.v Engine/Regex.vo Gen/Patterns.vo
Gen/Tables.vio: Gen/Tables.v Engine/Regex.vio Gen/Patterns.vio
Gen/Tables.vos Gen/Tables.vok Gen/Tables.required_vos: Gen/Tables.v Engine/Regex.vos Gen/Patterns.vos
Extract/Val.vo Extract/Val.glob Extract/Val.v.beautified Extract/Val.required_vo: Extract/Val.v Engine/Regex.vo PyRt/Str.vo
Extract/Val.vio: Extract/Val.v Engine/Regex.vio PyRt/Str.vio
Extract/Val.vos Extract/Val.vok Extract/Val.required_vos: Extract/Val.v Engine/Regex.vos PyRt/Str.vos
Extract/DispBase.vo Extract/DispBase.glob Extract/DispBase.v.beautified Extract/DispBase.required_vo: Extract/DispBase.v Engine/Regex.vo Gen/Patterns.vo PyRt/Str.vo Extract/Val.vo
Extract/DispBase.vio: Extract/DispBase.v Engine/Regex.vio Gen/Patterns.vio PyRt/Str.vio Extract/Val.vio
Extract/DispBase.vos Extract/DispBase.vok Extract/DispBase.required_vos: Extract/DispBase.v Engine/Regex.vos Gen/Patterns.vos PyRt/Str.vos Extract/Val.vos
Extract/DispAliquot.vo Extract/DispAliquot.glob Extract/DispAliquot.v.beautified Extract/DispAliquot.required_vo: Extract/DispAliquot.v Engine/Regex.vo PyRt/Str.vo Extract/Val.vo Extract/DispBase.vo Model/Aliquot.vo
Extract/DispAliquot.vio: Extract/DispAliquot.v Engine/Regex.vio PyRt/Str.vio Extract/Val.vio Extract/DispBase.vio Model/Aliquot.vio
Extract/DispAliquot.vos Extract/DispAliquot.vok Extract/DispAliquot.required_vos: Extract/DispAliquot.v Engine/Regex.vos PyRt/Str.vos Extract/Val.vos Extract/DispBase.vos Model/Aliquot.vos
Extract/Drv_aliquot.vo Extract/Drv_aliquot.glob Extract/Drv_aliquot.v.beautified Extract/Drv_aliquot.required_vo: Extract/Drv_aliquot.v Engine/Regex.vo Extract/Val.vo Extract/DispBase.vo Extract/DispAliquot.vo
Extract/Drv_aliquot.vio: Extract/Drv_aliquot.v Engine/Regex.vio Extract/Val.vio Extract/DispBase.vio Extract/DispAliquot.vio
Extract/Drv_aliquot.vos Extract/Drv_aliquot.vok Extract/Drv_aliquot.required_vos: Extract/Drv_aliquot.v Engine/Regex.vos Extract/Val.vos Extract/DispBase.vos Extract/DispAliquot.vos
Model/Aliquot.vo Model/Aliquot.glob Model/Aliquot.v.beautified Model/Aliquot.required_vo: Model/Aliquot.v Engine/Regex.vo Gen/Patterns.vo PyRt/Str.vo Gen/Tables.vo
Model/Aliquot.vio: Model/Aliquot.v Engine/Regex.vio Gen/Patterns.vio PyRt/Str.vio Gen/Tables.vio
Model/Aliquot.vos Model/Aliquot.vok Model/Aliquot.required_vos: Model/Aliquot.v Engine/Regex.vos Gen/Patterns.vos PyRt/Str.vos Gen/Tables.vos
Spec/Geometry.vo Spec/Geometry.glob Spec/Geometry.v.beautified Spec/Geometry.required_vo: Spec/Geometry.v Model/Aliquot.vo
Spec/Geometry.vio: Spec/Geometry.v Model/Aliquot.vio
Spec/Geometry.vos Spec/Geometry.vok Spec/Geometry.required_vos: Spec/Geometry.v Model/Aliquot.vos
Spec/C02Spec.vo Spec/C02Spec.glob Spec/C02Spec.v.beautified Spec/C02Spec.required_vo: Spec/C02Spec.v Model/Aliquot.vo Spec/Geometry.vo
Spec/C02Spec.vio: Spec/C02Spec.v Model/Aliquot.vio Spec/Geometry.vio
Spec/C02Spec.vos Spec/C02Spec.vok Spec/C02Spec.required_vos: Spec/C02Spec.v Model/Aliquot.vos Spec/Geometry.vos
Properties/C02.vo Properties/C02.glob Properties/C02.v.beautified Properties/C02.required_vo: Properties/C02.v Model/Aliquot.vo Spec/Geometry.vo Spec/C02Spec.vo
Properties/C02.vio: Properties/C02.v Model/Aliquot.vio Spec/Geometry.vio Spec/C02Spec.vio
Properties/C02.vos Properties/C02.vok Properties/C02.required_vos: Properties/C02.v Model/Aliquot.vos Spec/Geometry.vos Spec/C02Spec.vos
