Engine/Regex.vo Engine/Regex.glob Engine/Regex.v.beautified Engine/Regex.required_vo: Engine/Regex.v 
Engine/Regex.vio: Engine/Regex.v 
Engine/Regex.vos Engine/Regex.vok Engine/Regex.required_vos: Engine/Regex.v 
Gen/Patterns.vo Gen/Patterns.glob Gen/Patterns.v.beautified Gen/Patterns.required_vo: Gen/Patterns.v Engine/Regex.vo
Gen/Patterns.vio: Gen/Patterns.v Engine/Regex.vio
Gen/Patterns.vos Gen/Patterns.vok Gen/Patterns.required_vos: Gen/Patterns.v Engine/Regex.vos
Gen/PyTables.vo Gen/PyTables.glob Gen/PyTables.v.beautified Gen/PyTables.required_vo: Gen/PyTables.v 
Gen/PyTables.vio: Gen/PyTables.v 
Gen/PyTables.vos Gen/PyTables.vok Gen/PyTables.required_vos: Gen/PyTables.v 
PyRt/Str.vo PyRt/Str.glob PyRt/Str.v.beautified PyRt/Str.required_vo: PyRt/Str.v Engine/Regex.vo Gen/PyTables.vo
PyRt/Str.vio: PyRt/Str.v Engine/Regex.vio Gen/PyTables.vio
PyRt/Str.vos PyRt/Str.vok PyRt/Str.required_vos: PyRt/Str.v Engine/Regex.vos Gen/PyTables.vos
Gen/Tables.vo Gen/Tables.glob Gen/Tables.v.beautified Gen/Tables.required_vo: Gen/Tables.v Engine/Regex.vo Gen/Patterns.vo
Gen/Tables.vio: Gen/Tables.v Engine/Regex.vio Gen/Patterns.vio
Gen/Tables.vos Gen/Tables.vok Gen/Tables.required_vos: Gen/Tables.v Engine/Regex.vos Gen/Patterns.vos
Extract/Val.vo Extract/Val.glob Extract/Val.v.beautified Extract/Val.required_vo: Extract/Val.v Engine/Regex.vo PyRt/Str.vo
Extract/Val.vio: Extract/Val.v Engine/Regex.vio PyRt/Str.vio
Extract/Val.vos Extract/Val.vok Extract/Val.required_vos: Extract/Val.v Engine/Regex.vos PyRt/Str.vos
Extract/DispBase.vo Extract/DispBase.glob Extract/DispBase.v.beautified Extract/DispBase.required_vo: Extract/DispBase.v Engine/Regex.vo Gen/Patterns.vo PyRt/Str.vo Extract/Val.vo
Extract/DispBase.vio: Extract/DispBase.v Engine/Regex.vio Gen/Patterns.vio PyRt/Str.vio Extract/Val.vio
Extract/DispBase.vos Extract/DispBase.vok Extract/DispBase.required_vos: Extract/DispBase.v Engine/Regex.vos Gen/Patterns.vos PyRt/Str.vos Extract/Val.vos
Extract/DispAliquot.vo Extract/DispAliquot.glob Extract/DispAliquot.v.beautified Extract/DispAliquot.required_vo: Extract/DispAliquot.v Engine/Regex.vo PyRt/Str.vo Extract/Val.vo Extract/DispBase.vo Model/Aliquot.vo
Extract/DispAliquot.vio: Extract/DispAliquot.v Engine/Regex.vio PyRt/Str.vio Extract/Val.vio Extract/DispBase.vio Model/Aliquot.vio
Extract/DispAliquot.vos Extract/DispAliquot.vok Extract/DispAliquot.required_vos: Extract/DispAliquot.v Engine/Regex.vos PyRt/Str.vos Extract/Val.vos Extract/DispBase.vos Model/Aliquot.vos
Extract/Drv_aliquot.vo Extract/Drv_aliquot.glob Extract/Drv_aliquot.v.beautified Extract/Drv_aliquot.required_vo: Extract/Drv_aliquot.v Engine/Regex.vo Extract/Val.vo Extract/DispBase.vo Extract/DispAliquot.vo
Extract/Drv_aliquot.vio: Extract/Drv_aliquot.v Engine/Regex.vio Extract/Val.vio Extract/DispBase.vio Extract/DispAliquot.vio
Extract/Drv_aliquot.vos Extract/Drv_aliquot.vok Extract/Drv_aliquot.required_vos: Extract/Drv_aliquot.v Engine/Regex.vos Extract/Val.vos Extract/DispBase.vos Extract/DispAliquot.vos
Model/Aliquot.vo Model/Aliquot.glob Model/Aliquot.v.beautified Model/Aliquot.required_vo: Model/Aliquot.v Engine/Regex.vo Gen/Patterns.vo PyRt/Str.vo Gen/Tables.vo
Model/Aliquot.vio: Model/Aliquot.v Engine/Regex.vio Gen/Patterns.vio PyRt/Str.vio Gen/Tables.vio
Model/Aliquot.vos Model/Aliquot.vok Model/Aliquot.required_vos: Model/Aliquot.v Engine/Regex.vos Gen/Patterns.vos PyRt/Str.vos Gen/Tables.vos
Spec/Geometry.vo Spec/Geometry.glob Spec/Geometry.v.beautified Spec/Geometry.required_vo: Spec/Geometry.v Model/Aliquot.vo
Spec/Geometry.vio: Spec/Geometry.v Model/Aliquot.vio
Spec/Geometry.vos Spec/Geometry.vok Spec/Geometry.required_vos: Spec/Geometry.v Model/Aliquot.vos
Spec/C02Spec.vo Spec/C02Spec.glob Spec/C02Spec.v.beautified Spec/C02Spec.required_vo: Spec/C02Spec.v Model/Aliquot.vo Spec/Geometry.vo
Spec/C02Spec.vio: Spec/C02Spec.v Model/Aliquot.vio Spec/Geometry.vio
Spec/C02Spec.vos Spec/C02Spec.vok Spec/C02Spec.required_vos: Spec/C02Spec.v Model/Aliquot.vos Spec/Geometry.vos
Model/Trs.vo Model/Trs.glob Model/Trs.v.beautified Model/Trs.required_vo: Model/Trs.v Engine/Regex.vo Gen/Patterns.vo PyRt/Str.vo Gen/Tables.vo
Model/Trs.vio: Model/Trs.v Engine/Regex.vio Gen/Patterns.vio PyRt/Str.vio Gen/Tables.vio
Model/Trs.vos Model/Trs.vok Model/Trs.required_vos: Model/Trs.v Engine/Regex.vos Gen/Patterns.vos PyRt/Str.vos Gen/Tables.vos
Extract/DispTrs.vo Extract/DispTrs.glob Extract/DispTrs.v.beautified Extract/DispTrs.required_vo: Extract/DispTrs.v Engine/Regex.vo PyRt/Str.vo Extract/Val.vo Extract/DispBase.vo Model/Trs.vo
Extract/DispTrs.vio: Extract/DispTrs.v Engine/Regex.vio PyRt/Str.vio Extract/Val.vio Extract/DispBase.vio Model/Trs.vio
Extract/DispTrs.vos Extract/DispTrs.vok Extract/DispTrs.required_vos: Extract/DispTrs.v Engine/Regex.vos PyRt/Str.vos Extract/Val.vos Extract/DispBase.vos Model/Trs.vos
Extract/Drv_trs.vo Extract/Drv_trs.glob Extract/Drv_trs.v.beautified Extract/Drv_trs.required_vo: Extract/Drv_trs.v Engine/Regex.vo Extract/Val.vo Extract/DispBase.vo Extract/DispTrs.vo
Extract/Drv_trs.vio: Extract/Drv_trs.v Engine/Regex.vio Extract/Val.vio Extract/DispBase.vio Extract/DispTrs.vio
Extract/Drv_trs.vos Extract/Drv_trs.vok Extract/Drv_trs.required_vos: Extract/Drv_trs.v Engine/Regex.vos Extract/Val.vos Extract/DispBase.vos Extract/DispTrs.vos
Spec/C12Spec.vo Spec/C12Spec.glob Spec/C12Spec.v.beautified Spec/C12Spec.required_vo: Spec/C12Spec.v Engine/Regex.vo PyRt/Str.vo Gen/Tables.vo Model/Trs.vo
Spec/C12Spec.vio: Spec/C12Spec.v Engine/Regex.vio PyRt/Str.vio Gen/Tables.vio Model/Trs.vio
Spec/C12Spec.vos Spec/C12Spec.vok Spec/C12Spec.required_vos: Spec/C12Spec.v Engine/Regex.vos PyRt/Str.vos Gen/Tables.vos Model/Trs.vos
Proofs/C12/Finite.vo Proofs/C12/Finite.glob Proofs/C12/Finite.v.beautified Proofs/C12/Finite.required_vo: Proofs/C12/Finite.v Engine/Regex.vo Gen/Patterns.vo PyRt/Str.vo Gen/Tables.vo Model/Trs.vo Spec/C12Spec.vo
Proofs/C12/Finite.vio: Proofs/C12/Finite.v Engine/Regex.vio Gen/Patterns.vio PyRt/Str.vio Gen/Tables.vio Model/Trs.vio Spec/C12Spec.vio
Proofs/C12/Finite.vos Proofs/C12/Finite.vok Proofs/C12/Finite.required_vos: Proofs/C12/Finite.v Engine/Regex.vos Gen/Patterns.vos PyRt/Str.vos Gen/Tables.vos Model/Trs.vos Spec/C12Spec.vos
Proofs/C02/TableSpecs.vo Proofs/C02/TableSpecs.glob Proofs/C02/TableSpecs.v.beautified Proofs/C02/TableSpecs.required_vo: Proofs/C02/TableSpecs.v Engine/Regex.vo PyRt/Str.vo Gen/Tables.vo Model/Aliquot.vo Spec/Geometry.vo
Proofs/C02/TableSpecs.vio: Proofs/C02/TableSpecs.v Engine/Regex.vio PyRt/Str.vio Gen/Tables.vio Model/Aliquot.vio Spec/Geometry.vio
Proofs/C02/TableSpecs.vos Proofs/C02/TableSpecs.vok Proofs/C02/TableSpecs.required_vos: Proofs/C02/TableSpecs.v Engine/Regex.vos PyRt/Str.vos Gen/Tables.vos Model/Aliquot.vos Spec/Geometry.vos
Proofs/C02/Standardize.vo Proofs/C02/Standardize.glob Proofs/C02/Standardize.v.beautified Proofs/C02/Standardize.required_vo: Proofs/C02/Standardize.v Engine/Regex.vo PyRt/Str.vo Model/Aliquot.vo Spec/Geometry.vo Proofs/C02/TableSpecs.vo
Proofs/C02/Standardize.vio: Proofs/C02/Standardize.v Engine/Regex.vio PyRt/Str.vio Model/Aliquot.vio Spec/Geometry.vio Proofs/C02/TableSpecs.vio
Proofs/C02/Standardize.vos Proofs/C02/Standardize.vok Proofs/C02/Standardize.required_vos: Proofs/C02/Standardize.v Engine/Regex.vos PyRt/Str.vos Model/Aliquot.vos Spec/Geometry.vos Proofs/C02/TableSpecs.vos
Proofs/C02/Tiling.vo Proofs/C02/Tiling.glob Proofs/C02/Tiling.v.beautified Proofs/C02/Tiling.required_vo: Proofs/C02/Tiling.v Model/Aliquot.vo Spec/Geometry.vo
Proofs/C02/Tiling.vio: Proofs/C02/Tiling.v Model/Aliquot.vio Spec/Geometry.vio
Proofs/C02/Tiling.vos Proofs/C02/Tiling.vok Proofs/C02/Tiling.required_vos: Proofs/C02/Tiling.v Model/Aliquot.vos Spec/Geometry.vos
Proofs/C02/Subdivide.vo Proofs/C02/Subdivide.glob Proofs/C02/Subdivide.v.beautified Proofs/C02/Subdivide.required_vo: Proofs/C02/Subdivide.v Engine/Regex.vo PyRt/Str.vo Gen/Tables.vo Model/Aliquot.vo Spec/Geometry.vo Proofs/C02/TableSpecs.vo Proofs/C02/Tiling.vo
Proofs/C02/Subdivide.vio: Proofs/C02/Subdivide.v Engine/Regex.vio PyRt/Str.vio Gen/Tables.vio Model/Aliquot.vio Spec/Geometry.vio Proofs/C02/TableSpecs.vio Proofs/C02/Tiling.vio
Proofs/C02/Subdivide.vos Proofs/C02/Subdivide.vok Proofs/C02/Subdivide.required_vos: Proofs/C02/Subdivide.v Engine/Regex.vos PyRt/Str.vos Gen/Tables.vos Model/Aliquot.vos Spec/Geometry.vos Proofs/C02/TableSpecs.vos Proofs/C02/Tiling.vos
Proofs/C02/Parse.vo Proofs/C02/Parse.glob Proofs/C02/Parse.v.beautified Proofs/C02/Parse.required_vo: Proofs/C02/Parse.v Engine/Regex.vo PyRt/Str.vo Model/Aliquot.vo Spec/Geometry.vo Proofs/C02/TableSpecs.vo Proofs/C02/Standardize.vo Proofs/C02/Tiling.vo Proofs/C02/Subdivide.vo
Proofs/C02/Parse.vio: Proofs/C02/Parse.v Engine/Regex.vio PyRt/Str.vio Model/Aliquot.vio Spec/Geometry.vio Proofs/C02/TableSpecs.vio Proofs/C02/Standardize.vio Proofs/C02/Tiling.vio Proofs/C02/Subdivide.vio
Proofs/C02/Parse.vos Proofs/C02/Parse.vok Proofs/C02/Parse.required_vos: Proofs/C02/Parse.v Engine/Regex.vos PyRt/Str.vos Model/Aliquot.vos Spec/Geometry.vos Proofs/C02/TableSpecs.vos Proofs/C02/Standardize.vos Proofs/C02/Tiling.vos Proofs/C02/Subdivide.vos
Proofs/C02/Main.vo Proofs/C02/Main.glob Proofs/C02/Main.v.beautified Proofs/C02/Main.required_vo: Proofs/C02/Main.v Engine/Regex.vo PyRt/Str.vo Model/Aliquot.vo Spec/Geometry.vo Spec/C02Spec.vo Proofs/C02/TableSpecs.vo Proofs/C02/Standardize.vo Proofs/C02/Tiling.vo Proofs/C02/Subdivide.vo Proofs/C02/Parse.vo
Proofs/C02/Main.vio: Proofs/C02/Main.v Engine/Regex.vio PyRt/Str.vio Model/Aliquot.vio Spec/Geometry.vio Spec/C02Spec.vio Proofs/C02/TableSpecs.vio Proofs/C02/Standardize.vio Proofs/C02/Tiling.vio Proofs/C02/Subdivide.vio Proofs/C02/Parse.vio
Proofs/C02/Main.vos Proofs/C02/Main.vok Proofs/C02/Main.required_vos: Proofs/C02/Main.v Engine/Regex.vos PyRt/Str.vos Model/Aliquot.vos Spec/Geometry.vos Spec/C02Spec.vos Proofs/C02/TableSpecs.vos Proofs/C02/Standardize.vos Proofs/C02/Tiling.vos Proofs/C02/Subdivide.vos Proofs/C02/Parse.vos
Properties/C02.vo Properties/C02.glob Properties/C02.v.beautified Properties/C02.required_vo: Properties/C02.v Spec/C02Spec.vo Proofs/C02/Main.vo
Properties/C02.vio: Properties/C02.v Spec/C02Spec.vio Proofs/C02/Main.vio
Properties/C02.vos Properties/C02.vok Properties/C02.required_vos: Properties/C02.v Spec/C02Spec.vos Proofs/C02/Main.vos
Properties/C12.vo Properties/C12.glob Properties/C12.v.beautified Properties/C12.required_vo: Properties/C12.v Engine/Regex.vo PyRt/Str.vo Gen/Tables.vo Model/Trs.vo Spec/C12Spec.vo Proofs/C12/Finite.vo
Properties/C12.vio: Properties/C12.v Engine/Regex.vio PyRt/Str.vio Gen/Tables.vio Model/Trs.vio Spec/C12Spec.vio Proofs/C12/Finite.vio
Properties/C12.vos Properties/C12.vok Properties/C12.required_vos: Properties/C12.v Engine/Regex.vos PyRt/Str.vos Gen/Tables.vos Model/Trs.vos Spec/C12Spec.vos Proofs/C12/Finite.vos
Model/Unpack.vo Model/Unpack.glob Model/Unpack.v.beautified Model/Unpack.required_vo: Model/Unpack.v Engine/Regex.vo Gen/Patterns.vo PyRt/Str.vo Gen/Tables.vo Model/Trs.vo
Model/Unpack.vio: Model/Unpack.v Engine/Regex.vio Gen/Patterns.vio PyRt/Str.vio Gen/Tables.vio Model/Trs.vio
Model/Unpack.vos Model/Unpack.vok Model/Unpack.required_vos: Model/Unpack.v Engine/Regex.vos Gen/Patterns.vos PyRt/Str.vos Gen/Tables.vos Model/Trs.vos
Model/TractPre.vo Model/TractPre.glob Model/TractPre.v.beautified Model/TractPre.required_vo: Model/TractPre.v Engine/Regex.vo Gen/Patterns.vo PyRt/Str.vo Gen/Tables.vo Model/Trs.vo
Model/TractPre.vio: Model/TractPre.v Engine/Regex.vio Gen/Patterns.vio PyRt/Str.vio Gen/Tables.vio Model/Trs.vio
Model/TractPre.vos Model/TractPre.vok Model/TractPre.required_vos: Model/TractPre.v Engine/Regex.vos Gen/Patterns.vos PyRt/Str.vos Gen/Tables.vos Model/Trs.vos
Model/TractParse.vo Model/TractParse.glob Model/TractParse.v.beautified Model/TractParse.required_vo: Model/TractParse.v Engine/Regex.vo Gen/Patterns.vo PyRt/Str.vo Gen/Tables.vo Model/Trs.vo Model/Unpack.vo Model/TractPre.vo Model/Aliquot.vo
Model/TractParse.vio: Model/TractParse.v Engine/Regex.vio Gen/Patterns.vio PyRt/Str.vio Gen/Tables.vio Model/Trs.vio Model/Unpack.vio Model/TractPre.vio Model/Aliquot.vio
Model/TractParse.vos Model/TractParse.vok Model/TractParse.required_vos: Model/TractParse.v Engine/Regex.vos Gen/Patterns.vos PyRt/Str.vos Gen/Tables.vos Model/Trs.vos Model/Unpack.vos Model/TractPre.vos Model/Aliquot.vos
Model/Containers.vo Model/Containers.glob Model/Containers.v.beautified Model/Containers.required_vo: Model/Containers.v Engine/Regex.vo Gen/Patterns.vo PyRt/Str.vo Gen/Tables.vo Model/Trs.vo
Model/Containers.vio: Model/Containers.v Engine/Regex.vio Gen/Patterns.vio PyRt/Str.vio Gen/Tables.vio Model/Trs.vio
Model/Containers.vos Model/Containers.vok Model/Containers.required_vos: Model/Containers.v Engine/Regex.vos Gen/Patterns.vos PyRt/Str.vos Gen/Tables.vos Model/Trs.vos
Proofs/C17/Sort.vo Proofs/C17/Sort.glob Proofs/C17/Sort.v.beautified Proofs/C17/Sort.required_vo: Proofs/C17/Sort.v Engine/Regex.vo PyRt/Str.vo Model/Trs.vo Model/Containers.vo
Proofs/C17/Sort.vio: Proofs/C17/Sort.v Engine/Regex.vio PyRt/Str.vio Model/Trs.vio Model/Containers.vio
Proofs/C17/Sort.vos Proofs/C17/Sort.vok Proofs/C17/Sort.required_vos: Proofs/C17/Sort.v Engine/Regex.vos PyRt/Str.vos Model/Trs.vos Model/Containers.vos
Proofs/C17/Keys.vo Proofs/C17/Keys.glob Proofs/C17/Keys.v.beautified Proofs/C17/Keys.required_vo: Proofs/C17/Keys.v Engine/Regex.vo Gen/Patterns.vo PyRt/Str.vo Gen/Tables.vo Model/Trs.vo Model/Containers.vo Proofs/C17/Sort.vo
Proofs/C17/Keys.vio: Proofs/C17/Keys.v Engine/Regex.vio Gen/Patterns.vio PyRt/Str.vio Gen/Tables.vio Model/Trs.vio Model/Containers.vio Proofs/C17/Sort.vio
Proofs/C17/Keys.vos Proofs/C17/Keys.vok Proofs/C17/Keys.required_vos: Proofs/C17/Keys.v Engine/Regex.vos Gen/Patterns.vos PyRt/Str.vos Gen/Tables.vos Model/Trs.vos Model/Containers.vos Proofs/C17/Sort.vos
Proofs/C18/Lists.vo Proofs/C18/Lists.glob Proofs/C18/Lists.v.beautified Proofs/C18/Lists.required_vo: Proofs/C18/Lists.v Engine/Regex.vo PyRt/Str.vo Model/Trs.vo Model/Containers.vo
Proofs/C18/Lists.vio: Proofs/C18/Lists.v Engine/Regex.vio PyRt/Str.vio Model/Trs.vio Model/Containers.vio
Proofs/C18/Lists.vos Proofs/C18/Lists.vok Proofs/C18/Lists.required_vos: Proofs/C18/Lists.v Engine/Regex.vos PyRt/Str.vos Model/Trs.vos Model/Containers.vos
Properties/C17.vo Properties/C17.glob Properties/C17.v.beautified Properties/C17.required_vo: Properties/C17.v Engine/Regex.vo Gen/Patterns.vo PyRt/Str.vo Gen/Tables.vo Model/Trs.vo Model/Containers.vo Proofs/C17/Sort.vo Proofs/C17/Keys.vo
Properties/C17.vio: Properties/C17.v Engine/Regex.vio Gen/Patterns.vio PyRt/Str.vio Gen/Tables.vio Model/Trs.vio Model/Containers.vio Proofs/C17/Sort.vio Proofs/C17/Keys.vio
Properties/C17.vos Properties/C17.vok Properties/C17.required_vos: Properties/C17.v Engine/Regex.vos Gen/Patterns.vos PyRt/Str.vos Gen/Tables.vos Model/Trs.vos Model/Containers.vos Proofs/C17/Sort.vos Proofs/C17/Keys.vos
Properties/C18.vo Properties/C18.glob Properties/C18.v.beautified Properties/C18.required_vo: Properties/C18.v Engine/Regex.vo PyRt/Str.vo Model/Trs.vo Model/Containers.vo Proofs/C18/Lists.vo
Properties/C18.vio: Properties/C18.v Engine/Regex.vio PyRt/Str.vio Model/Trs.vio Model/Containers.vio Proofs/C18/Lists.vio
Properties/C18.vos Properties/C18.vok Properties/C18.required_vos: Properties/C18.v Engine/Regex.vos PyRt/Str.vos Model/Trs.vos Model/Containers.vos Proofs/C18/Lists.vos
Extract/DispContainers.vo Extract/DispContainers.glob Extract/DispContainers.v.beautified Extract/DispContainers.required_vo: Extract/DispContainers.v Engine/Regex.vo PyRt/Str.vo Extract/Val.vo Extract/DispBase.vo Extract/DispTrs.vo Model/Trs.vo Model/Containers.vo
Extract/DispContainers.vio: Extract/DispContainers.v Engine/Regex.vio PyRt/Str.vio Extract/Val.vio Extract/DispBase.vio Extract/DispTrs.vio Model/Trs.vio Model/Containers.vio
Extract/DispContainers.vos Extract/DispContainers.vok Extract/DispContainers.required_vos: Extract/DispContainers.v Engine/Regex.vos PyRt/Str.vos Extract/Val.vos Extract/DispBase.vos Extract/DispTrs.vos Model/Trs.vos Model/Containers.vos
Extract/Drv_containers.vo Extract/Drv_containers.glob Extract/Drv_containers.v.beautified Extract/Drv_containers.required_vo: Extract/Drv_containers.v Engine/Regex.vo Extract/Val.vo Extract/DispBase.vo Extract/DispContainers.vo
Extract/Drv_containers.vio: Extract/Drv_containers.v Engine/Regex.vio Extract/Val.vio Extract/DispBase.vio Extract/DispContainers.vio
Extract/Drv_containers.vos Extract/Drv_containers.vok Extract/Drv_containers.required_vos: Extract/Drv_containers.v Engine/Regex.vos Extract/Val.vos Extract/DispBase.vos Extract/DispContainers.vos
Model/Config.vo Model/Config.glob Model/Config.v.beautified Model/Config.required_vo: Model/Config.v Engine/Regex.vo Gen/Patterns.vo PyRt/Str.vo Gen/Tables.vo Model/Trs.vo
Model/Config.vio: Model/Config.v Engine/Regex.vio Gen/Patterns.vio PyRt/Str.vio Gen/Tables.vio Model/Trs.vio
Model/Config.vos Model/Config.vok Model/Config.required_vos: Model/Config.v Engine/Regex.vos Gen/Patterns.vos PyRt/Str.vos Gen/Tables.vos Model/Trs.vos
Extract/DispConfig.vo Extract/DispConfig.glob Extract/DispConfig.v.beautified Extract/DispConfig.required_vo: Extract/DispConfig.v Engine/Regex.vo PyRt/Str.vo Extract/Val.vo Extract/DispBase.vo Extract/DispTrs.vo Extract/DispContainers.vo Model/Trs.vo Model/Config.vo
Extract/DispConfig.vio: Extract/DispConfig.v Engine/Regex.vio PyRt/Str.vio Extract/Val.vio Extract/DispBase.vio Extract/DispTrs.vio Extract/DispContainers.vio Model/Trs.vio Model/Config.vio
Extract/DispConfig.vos Extract/DispConfig.vok Extract/DispConfig.required_vos: Extract/DispConfig.v Engine/Regex.vos PyRt/Str.vos Extract/Val.vos Extract/DispBase.vos Extract/DispTrs.vos Extract/DispContainers.vos Model/Trs.vos Model/Config.vos
Extract/Drv_config.vo Extract/Drv_config.glob Extract/Drv_config.v.beautified Extract/Drv_config.required_vo: Extract/Drv_config.v Engine/Regex.vo Extract/Val.vo Extract/DispBase.vo Extract/DispConfig.vo
Extract/Drv_config.vio: Extract/Drv_config.v Engine/Regex.vio Extract/Val.vio Extract/DispBase.vio Extract/DispConfig.vio
Extract/Drv_config.vos Extract/Drv_config.vok Extract/Drv_config.required_vos: Extract/Drv_config.v Engine/Regex.vos Extract/Val.vos Extract/DispBase.vos Extract/DispConfig.vos
Properties/C13.vo Properties/C13.glob Properties/C13.v.beautified Properties/C13.required_vo: Properties/C13.v Engine/Regex.vo Gen/Patterns.vo PyRt/Str.vo Gen/Tables.vo Model/Trs.vo Model/Config.vo Proofs/C13/Config.vo
Properties/C13.vio: Properties/C13.v Engine/Regex.vio Gen/Patterns.vio PyRt/Str.vio Gen/Tables.vio Model/Trs.vio Model/Config.vio Proofs/C13/Config.vio
Properties/C13.vos Properties/C13.vok Properties/C13.required_vos: Properties/C13.v Engine/Regex.vos Gen/Patterns.vos PyRt/Str.vos Gen/Tables.vos Model/Trs.vos Model/Config.vos Proofs/C13/Config.vos
Proofs/C13/Config.vo Proofs/C13/Config.glob Proofs/C13/Config.v.beautified Proofs/C13/Config.required_vo: Proofs/C13/Config.v Engine/Regex.vo Gen/Patterns.vo PyRt/Str.vo Gen/Tables.vo Model/Trs.vo Model/Config.vo
Proofs/C13/Config.vio: Proofs/C13/Config.v Engine/Regex.vio Gen/Patterns.vio PyRt/Str.vio Gen/Tables.vio Model/Trs.vio Model/Config.vio
Proofs/C13/Config.vos Proofs/C13/Config.vok Proofs/C13/Config.required_vos: Proofs/C13/Config.v Engine/Regex.vos Gen/Patterns.vos PyRt/Str.vos Gen/Tables.vos Model/Trs.vos Model/Config.vos
Model/Export.vo Model/Export.glob Model/Export.v.beautified Model/Export.required_vo: Model/Export.v Engine/Regex.vo PyRt/Str.vo Gen/Tables.vo Model/Trs.vo
Model/Export.vio: Model/Export.v Engine/Regex.vio PyRt/Str.vio Gen/Tables.vio Model/Trs.vio
Model/Export.vos Model/Export.vok Model/Export.required_vos: Model/Export.v Engine/Regex.vos PyRt/Str.vos Gen/Tables.vos Model/Trs.vos
Proofs/C19/Export.vo Proofs/C19/Export.glob Proofs/C19/Export.v.beautified Proofs/C19/Export.required_vo: Proofs/C19/Export.v Engine/Regex.vo PyRt/Str.vo Gen/Tables.vo Model/Trs.vo Model/Export.vo
Proofs/C19/Export.vio: Proofs/C19/Export.v Engine/Regex.vio PyRt/Str.vio Gen/Tables.vio Model/Trs.vio Model/Export.vio
Proofs/C19/Export.vos Proofs/C19/Export.vok Proofs/C19/Export.required_vos: Proofs/C19/Export.v Engine/Regex.vos PyRt/Str.vos Gen/Tables.vos Model/Trs.vos Model/Export.vos
Properties/C19.vo Properties/C19.glob Properties/C19.v.beautified Properties/C19.required_vo: Properties/C19.v Engine/Regex.vo PyRt/Str.vo Gen/Tables.vo Model/Trs.vo Model/Export.vo Proofs/C19/Export.vo
Properties/C19.vio: Properties/C19.v Engine/Regex.vio PyRt/Str.vio Gen/Tables.vio Model/Trs.vio Model/Export.vio Proofs/C19/Export.vio
Properties/C19.vos Properties/C19.vok Properties/C19.required_vos: Properties/C19.v Engine/Regex.vos PyRt/Str.vos Gen/Tables.vos Model/Trs.vos Model/Export.vos Proofs/C19/Export.vos
Extract/DispExport.vo Extract/DispExport.glob Extract/DispExport.v.beautified Extract/DispExport.required_vo: Extract/DispExport.v Engine/Regex.vo PyRt/Str.vo Extract/Val.vo Extract/DispBase.vo Extract/DispTrs.vo Extract/DispContainers.vo Model/Trs.vo Model/Export.vo
Extract/DispExport.vio: Extract/DispExport.v Engine/Regex.vio PyRt/Str.vio Extract/Val.vio Extract/DispBase.vio Extract/DispTrs.vio Extract/DispContainers.vio Model/Trs.vio Model/Export.vio
Extract/DispExport.vos Extract/DispExport.vok Extract/DispExport.required_vos: Extract/DispExport.v Engine/Regex.vos PyRt/Str.vos Extract/Val.vos Extract/DispBase.vos Extract/DispTrs.vos Extract/DispContainers.vos Model/Trs.vos Model/Export.vos
Extract/Drv_export.vo Extract/Drv_export.glob Extract/Drv_export.v.beautified Extract/Drv_export.required_vo: Extract/Drv_export.v Engine/Regex.vo Extract/Val.vo Extract/DispBase.vo Extract/DispExport.vo
Extract/Drv_export.vio: Extract/Drv_export.v Engine/Regex.vio Extract/Val.vio Extract/DispBase.vio Extract/DispExport.vio
Extract/Drv_export.vos Extract/Drv_export.vok Extract/Drv_export.required_vos: Extract/Drv_export.v Engine/Regex.vos Extract/Val.vos Extract/DispBase.vos Extract/DispExport.vos
Extract/DispTract.vo Extract/DispTract.glob Extract/DispTract.v.beautified Extract/DispTract.required_vo: Extract/DispTract.v Engine/Regex.vo PyRt/Str.vo Extract/Val.vo Extract/DispBase.vo Extract/DispTrs.vo Extract/DispContainers.vo Model/Trs.vo Model/Unpack.vo Model/TractPre.vo Model/TractParse.vo
Extract/DispTract.vio: Extract/DispTract.v Engine/Regex.vio PyRt/Str.vio Extract/Val.vio Extract/DispBase.vio Extract/DispTrs.vio Extract/DispContainers.vio Model/Trs.vio Model/Unpack.vio Model/TractPre.vio Model/TractParse.vio
Extract/DispTract.vos Extract/DispTract.vok Extract/DispTract.required_vos: Extract/DispTract.v Engine/Regex.vos PyRt/Str.vos Extract/Val.vos Extract/DispBase.vos Extract/DispTrs.vos Extract/DispContainers.vos Model/Trs.vos Model/Unpack.vos Model/TractPre.vos Model/TractParse.vos
Extract/Drv_tract.vo Extract/Drv_tract.glob Extract/Drv_tract.v.beautified Extract/Drv_tract.required_vo: Extract/Drv_tract.v Engine/Regex.vo Extract/Val.vo Extract/DispBase.vo Extract/DispAliquot.vo Extract/DispTract.vo
Extract/Drv_tract.vio: Extract/Drv_tract.v Engine/Regex.vio Extract/Val.vio Extract/DispBase.vio Extract/DispAliquot.vio Extract/DispTract.vio
Extract/Drv_tract.vos Extract/Drv_tract.vok Extract/Drv_tract.required_vos: Extract/Drv_tract.v Engine/Regex.vos Extract/Val.vos Extract/DispBase.vos Extract/DispAliquot.vos Extract/DispTract.vos
Proofs/C05/Unpack.vo Proofs/C05/Unpack.glob Proofs/C05/Unpack.v.beautified Proofs/C05/Unpack.required_vo: Proofs/C05/Unpack.v Engine/Regex.vo Gen/Patterns.vo PyRt/Str.vo Gen/Tables.vo Model/Trs.vo Model/Unpack.vo
Proofs/C05/Unpack.vio: Proofs/C05/Unpack.v Engine/Regex.vio Gen/Patterns.vio PyRt/Str.vio Gen/Tables.vio Model/Trs.vio Model/Unpack.vio
Proofs/C05/Unpack.vos Proofs/C05/Unpack.vok Proofs/C05/Unpack.required_vos: Proofs/C05/Unpack.v Engine/Regex.vos Gen/Patterns.vos PyRt/Str.vos Gen/Tables.vos Model/Trs.vos Model/Unpack.vos
Properties/C05.vo Properties/C05.glob Properties/C05.v.beautified Properties/C05.required_vo: Properties/C05.v Engine/Regex.vo Gen/Patterns.vo PyRt/Str.vo Gen/Tables.vo Model/Trs.vo Model/Unpack.vo Proofs/C05/Unpack.vo
Properties/C05.vio: Properties/C05.v Engine/Regex.vio Gen/Patterns.vio PyRt/Str.vio Gen/Tables.vio Model/Trs.vio Model/Unpack.vio Proofs/C05/Unpack.vio
Properties/C05.vos Properties/C05.vok Properties/C05.required_vos: Properties/C05.v Engine/Regex.vos Gen/Patterns.vos PyRt/Str.vos Gen/Tables.vos Model/Trs.vos Model/Unpack.vos Proofs/C05/Unpack.vos
Proofs/C06/Tract.vo Proofs/C06/Tract.glob Proofs/C06/Tract.v.beautified Proofs/C06/Tract.required_vo: Proofs/C06/Tract.v Engine/Regex.vo Gen/Patterns.vo PyRt/Str.vo Gen/Tables.vo Model/Trs.vo Model/Unpack.vo Model/TractPre.vo Model/Aliquot.vo Model/TractParse.vo Proofs/C18/Lists.vo
Proofs/C06/Tract.vio: Proofs/C06/Tract.v Engine/Regex.vio Gen/Patterns.vio PyRt/Str.vio Gen/Tables.vio Model/Trs.vio Model/Unpack.vio Model/TractPre.vio Model/Aliquot.vio Model/TractParse.vio Proofs/C18/Lists.vio
Proofs/C06/Tract.vos Proofs/C06/Tract.vok Proofs/C06/Tract.required_vos: Proofs/C06/Tract.v Engine/Regex.vos Gen/Patterns.vos PyRt/Str.vos Gen/Tables.vos Model/Trs.vos Model/Unpack.vos Model/TractPre.vos Model/Aliquot.vos Model/TractParse.vos Proofs/C18/Lists.vos
Properties/C06.vo Properties/C06.glob Properties/C06.v.beautified Properties/C06.required_vo: Properties/C06.v Engine/Regex.vo Gen/Patterns.vo PyRt/Str.vo Gen/Tables.vo Model/Trs.vo Model/Unpack.vo Model/TractPre.vo Model/Aliquot.vo Model/TractParse.vo Proofs/C06/Tract.vo
Properties/C06.vio: Properties/C06.v Engine/Regex.vio Gen/Patterns.vio PyRt/Str.vio Gen/Tables.vio Model/Trs.vio Model/Unpack.vio Model/TractPre.vio Model/Aliquot.vio Model/TractParse.vio Proofs/C06/Tract.vio
Properties/C06.vos Properties/C06.vok Properties/C06.required_vos: Properties/C06.v Engine/Regex.vos Gen/Patterns.vos PyRt/Str.vos Gen/Tables.vos Model/Trs.vos Model/Unpack.vos Model/TractPre.vos Model/Aliquot.vos Model/TractParse.vos Proofs/C06/Tract.vos
Spec/C07Spec.vo Spec/C07Spec.glob Spec/C07Spec.v.beautified Spec/C07Spec.required_vo: Spec/C07Spec.v Engine/Regex.vo PyRt/Str.vo
Spec/C07Spec.vio: Spec/C07Spec.v Engine/Regex.vio PyRt/Str.vio
Spec/C07Spec.vos Spec/C07Spec.vok Spec/C07Spec.required_vos: Spec/C07Spec.v Engine/Regex.vos PyRt/Str.vos
Proofs/C07/Sweeps.vo Proofs/C07/Sweeps.glob Proofs/C07/Sweeps.v.beautified Proofs/C07/Sweeps.required_vo: Proofs/C07/Sweeps.v Engine/Regex.vo Gen/Patterns.vo PyRt/Str.vo Gen/Tables.vo Model/Trs.vo Model/TractPre.vo Spec/C07Spec.vo Proofs/C18/Lists.vo
Proofs/C07/Sweeps.vio: Proofs/C07/Sweeps.v Engine/Regex.vio Gen/Patterns.vio PyRt/Str.vio Gen/Tables.vio Model/Trs.vio Model/TractPre.vio Spec/C07Spec.vio Proofs/C18/Lists.vio
Proofs/C07/Sweeps.vos Proofs/C07/Sweeps.vok Proofs/C07/Sweeps.required_vos: Proofs/C07/Sweeps.v Engine/Regex.vos Gen/Patterns.vos PyRt/Str.vos Gen/Tables.vos Model/Trs.vos Model/TractPre.vos Spec/C07Spec.vos Proofs/C18/Lists.vos
Properties/C07.vo Properties/C07.glob Properties/C07.v.beautified Properties/C07.required_vo: Properties/C07.v Engine/Regex.vo Gen/Patterns.vo PyRt/Str.vo Gen/Tables.vo Model/Trs.vo Model/TractPre.vo Spec/C07Spec.vo Proofs/C07/Sweeps.vo
Properties/C07.vio: Properties/C07.v Engine/Regex.vio Gen/Patterns.vio PyRt/Str.vio Gen/Tables.vio Model/Trs.vio Model/TractPre.vio Spec/C07Spec.vio Proofs/C07/Sweeps.vio
Properties/C07.vos Properties/C07.vok Properties/C07.required_vos: Properties/C07.v Engine/Regex.vos Gen/Patterns.vos PyRt/Str.vos Gen/Tables.vos Model/Trs.vos Model/TractPre.vos Spec/C07Spec.vos Proofs/C07/Sweeps.vos
Model/PlssPre.vo Model/PlssPre.glob Model/PlssPre.v.beautified Model/PlssPre.required_vo: Model/PlssPre.v Engine/Regex.vo Gen/Patterns.vo PyRt/Str.vo Gen/Tables.vo Model/Trs.vo Model/Unpack.vo Model/TractPre.vo
Model/PlssPre.vio: Model/PlssPre.v Engine/Regex.vio Gen/Patterns.vio PyRt/Str.vio Gen/Tables.vio Model/Trs.vio Model/Unpack.vio Model/TractPre.vio
Model/PlssPre.vos Model/PlssPre.vok Model/PlssPre.required_vos: Model/PlssPre.v Engine/Regex.vos Gen/Patterns.vos PyRt/Str.vos Gen/Tables.vos Model/Trs.vos Model/Unpack.vos Model/TractPre.vos
Model/PlssParse.vo Model/PlssParse.glob Model/PlssParse.v.beautified Model/PlssParse.required_vo: Model/PlssParse.v Engine/Regex.vo Gen/Patterns.vo PyRt/Str.vo Gen/Tables.vo Model/Trs.vo Model/Unpack.vo Model/TractPre.vo Model/Aliquot.vo Model/TractParse.vo Model/PlssPre.vo
Model/PlssParse.vio: Model/PlssParse.v Engine/Regex.vio Gen/Patterns.vio PyRt/Str.vio Gen/Tables.vio Model/Trs.vio Model/Unpack.vio Model/TractPre.vio Model/Aliquot.vio Model/TractParse.vio Model/PlssPre.vio
Model/PlssParse.vos Model/PlssParse.vok Model/PlssParse.required_vos: Model/PlssParse.v Engine/Regex.vos Gen/Patterns.vos PyRt/Str.vos Gen/Tables.vos Model/Trs.vos Model/Unpack.vos Model/TractPre.vos Model/Aliquot.vos Model/TractParse.vos Model/PlssPre.vos
Model/PlssDesc.vo Model/PlssDesc.glob Model/PlssDesc.v.beautified Model/PlssDesc.required_vo: Model/PlssDesc.v Engine/Regex.vo Gen/Patterns.vo PyRt/Str.vo Gen/Tables.vo Model/Trs.vo Model/Unpack.vo Model/TractPre.vo Model/Aliquot.vo Model/TractParse.vo Model/PlssPre.vo Model/PlssParse.vo Model/Config.vo
Model/PlssDesc.vio: Model/PlssDesc.v Engine/Regex.vio Gen/Patterns.vio PyRt/Str.vio Gen/Tables.vio Model/Trs.vio Model/Unpack.vio Model/TractPre.vio Model/Aliquot.vio Model/TractParse.vio Model/PlssPre.vio Model/PlssParse.vio Model/Config.vio
Model/PlssDesc.vos Model/PlssDesc.vok Model/PlssDesc.required_vos: Model/PlssDesc.v Engine/Regex.vos Gen/Patterns.vos PyRt/Str.vos Gen/Tables.vos Model/Trs.vos Model/Unpack.vos Model/TractPre.vos Model/Aliquot.vos Model/TractParse.vos Model/PlssPre.vos Model/PlssParse.vos Model/Config.vos
Extract/DispPlss.vo Extract/DispPlss.glob Extract/DispPlss.v.beautified Extract/DispPlss.required_vo: Extract/DispPlss.v Engine/Regex.vo PyRt/Str.vo Gen/Tables.vo Extract/Val.vo Extract/DispBase.vo Extract/DispTrs.vo Extract/DispContainers.vo Extract/DispTract.vo Extract/DispConfig.vo Model/Trs.vo Model/Unpack.vo Model/TractParse.vo Model/PlssPre.vo Model/PlssParse.vo Model/Config.vo Model/PlssDesc.vo
Extract/DispPlss.vio: Extract/DispPlss.v Engine/Regex.vio PyRt/Str.vio Gen/Tables.vio Extract/Val.vio Extract/DispBase.vio Extract/DispTrs.vio Extract/DispContainers.vio Extract/DispTract.vio Extract/DispConfig.vio Model/Trs.vio Model/Unpack.vio Model/TractParse.vio Model/PlssPre.vio Model/PlssParse.vio Model/Config.vio Model/PlssDesc.vio
Extract/DispPlss.vos Extract/DispPlss.vok Extract/DispPlss.required_vos: Extract/DispPlss.v Engine/Regex.vos PyRt/Str.vos Gen/Tables.vos Extract/Val.vos Extract/DispBase.vos Extract/DispTrs.vos Extract/DispContainers.vos Extract/DispTract.vos Extract/DispConfig.vos Model/Trs.vos Model/Unpack.vos Model/TractParse.vos Model/PlssPre.vos Model/PlssParse.vos Model/Config.vos Model/PlssDesc.vos
Extract/Drv_plss.vo Extract/Drv_plss.glob Extract/Drv_plss.v.beautified Extract/Drv_plss.required_vo: Extract/Drv_plss.v Engine/Regex.vo Extract/Val.vo Extract/DispBase.vo Extract/DispPlss.vo
Extract/Drv_plss.vio: Extract/Drv_plss.v Engine/Regex.vio Extract/Val.vio Extract/DispBase.vio Extract/DispPlss.vio
Extract/Drv_plss.vos Extract/Drv_plss.vok Extract/Drv_plss.required_vos: Extract/Drv_plss.v Engine/Regex.vos Extract/Val.vos Extract/DispBase.vos Extract/DispPlss.vos
Properties/C01.vo Properties/C01.glob Properties/C01.v.beautified Properties/C01.required_vo: Properties/C01.v Engine/Regex.vo Gen/Patterns.vo PyRt/Str.vo Gen/Tables.vo Model/Trs.vo Model/PlssPre.vo Model/PlssParse.vo Model/Config.vo Model/PlssDesc.vo
Properties/C01.vio: Properties/C01.v Engine/Regex.vio Gen/Patterns.vio PyRt/Str.vio Gen/Tables.vio Model/Trs.vio Model/PlssPre.vio Model/PlssParse.vio Model/Config.vio Model/PlssDesc.vio
Properties/C01.vos Properties/C01.vok Properties/C01.required_vos: Properties/C01.v Engine/Regex.vos Gen/Patterns.vos PyRt/Str.vos Gen/Tables.vos Model/Trs.vos Model/PlssPre.vos Model/PlssParse.vos Model/Config.vos Model/PlssDesc.vos
Proofs/C11/CopyAll.vo Proofs/C11/CopyAll.glob Proofs/C11/CopyAll.v.beautified Proofs/C11/CopyAll.required_vo: Proofs/C11/CopyAll.v Engine/Regex.vo Gen/Patterns.vo PyRt/Str.vo Gen/Tables.vo Model/Trs.vo Model/Unpack.vo Model/TractPre.vo Model/Aliquot.vo Model/TractParse.vo Model/PlssPre.vo Model/PlssParse.vo Proofs/C18/Lists.vo
Proofs/C11/CopyAll.vio: Proofs/C11/CopyAll.v Engine/Regex.vio Gen/Patterns.vio PyRt/Str.vio Gen/Tables.vio Model/Trs.vio Model/Unpack.vio Model/TractPre.vio Model/Aliquot.vio Model/TractParse.vio Model/PlssPre.vio Model/PlssParse.vio Proofs/C18/Lists.vio
Proofs/C11/CopyAll.vos Proofs/C11/CopyAll.vok Proofs/C11/CopyAll.required_vos: Proofs/C11/CopyAll.v Engine/Regex.vos Gen/Patterns.vos PyRt/Str.vos Gen/Tables.vos Model/Trs.vos Model/Unpack.vos Model/TractPre.vos Model/Aliquot.vos Model/TractParse.vos Model/PlssPre.vos Model/PlssParse.vos Proofs/C18/Lists.vos
Properties/C11.vo Properties/C11.glob Properties/C11.v.beautified Properties/C11.required_vo: Properties/C11.v Engine/Regex.vo Gen/Patterns.vo PyRt/Str.vo Gen/Tables.vo Model/Trs.vo Model/Unpack.vo Model/TractParse.vo Model/PlssPre.vo Model/PlssParse.vo Model/Config.vo Model/PlssDesc.vo Proofs/C11/CopyAll.vo Proofs/C13/Config.vo
Properties/C11.vio: Properties/C11.v Engine/Regex.vio Gen/Patterns.vio PyRt/Str.vio Gen/Tables.vio Model/Trs.vio Model/Unpack.vio Model/TractParse.vio Model/PlssPre.vio Model/PlssParse.vio Model/Config.vio Model/PlssDesc.vio Proofs/C11/CopyAll.vio Proofs/C13/Config.vio
Properties/C11.vos Properties/C11.vok Properties/C11.required_vos: Properties/C11.v Engine/Regex.vos Gen/Patterns.vos PyRt/Str.vos Gen/Tables.vos Model/Trs.vos Model/Unpack.vos Model/TractParse.vos Model/PlssPre.vos Model/PlssParse.vos Model/Config.vos Model/PlssDesc.vos Proofs/C11/CopyAll.vos Proofs/C13/Config.vos
Proofs/C09/Tracts.vo Proofs/C09/Tracts.glob Proofs/C09/Tracts.v.beautified Proofs/C09/Tracts.required_vo: Proofs/C09/Tracts.v Engine/Regex.vo Gen/Patterns.vo PyRt/Str.vo Gen/Tables.vo Model/Trs.vo Model/Unpack.vo Model/TractPre.vo Model/Aliquot.vo Model/TractParse.vo Model/PlssPre.vo Model/PlssParse.vo
Proofs/C09/Tracts.vio: Proofs/C09/Tracts.v Engine/Regex.vio Gen/Patterns.vio PyRt/Str.vio Gen/Tables.vio Model/Trs.vio Model/Unpack.vio Model/TractPre.vio Model/Aliquot.vio Model/TractParse.vio Model/PlssPre.vio Model/PlssParse.vio
Proofs/C09/Tracts.vos Proofs/C09/Tracts.vok Proofs/C09/Tracts.required_vos: Proofs/C09/Tracts.v Engine/Regex.vos Gen/Patterns.vos PyRt/Str.vos Gen/Tables.vos Model/Trs.vos Model/Unpack.vos Model/TractPre.vos Model/Aliquot.vos Model/TractParse.vos Model/PlssPre.vos Model/PlssParse.vos
Proofs/C20/Modes.vo Proofs/C20/Modes.glob Proofs/C20/Modes.v.beautified Proofs/C20/Modes.required_vo: Proofs/C20/Modes.v Engine/Regex.vo Gen/Patterns.vo PyRt/Str.vo Gen/Tables.vo Model/Trs.vo Model/Unpack.vo Model/TractPre.vo Model/Aliquot.vo Model/TractParse.vo Model/PlssPre.vo Model/PlssParse.vo Proofs/C18/Lists.vo
Proofs/C20/Modes.vio: Proofs/C20/Modes.v Engine/Regex.vio Gen/Patterns.vio PyRt/Str.vio Gen/Tables.vio Model/Trs.vio Model/Unpack.vio Model/TractPre.vio Model/Aliquot.vio Model/TractParse.vio Model/PlssPre.vio Model/PlssParse.vio Proofs/C18/Lists.vio
Proofs/C20/Modes.vos Proofs/C20/Modes.vok Proofs/C20/Modes.required_vos: Proofs/C20/Modes.v Engine/Regex.vos Gen/Patterns.vos PyRt/Str.vos Gen/Tables.vos Model/Trs.vos Model/Unpack.vos Model/TractPre.vos Model/Aliquot.vos Model/TractParse.vos Model/PlssPre.vos Model/PlssParse.vos Proofs/C18/Lists.vos
Proofs/C10/Paired.vo Proofs/C10/Paired.glob Proofs/C10/Paired.v.beautified Proofs/C10/Paired.required_vo: Proofs/C10/Paired.v Engine/Regex.vo Gen/Patterns.vo PyRt/Str.vo Gen/Tables.vo Model/Trs.vo Model/Unpack.vo Model/TractPre.vo Model/Aliquot.vo Model/TractParse.vo Model/PlssPre.vo Model/PlssParse.vo
Proofs/C10/Paired.vio: Proofs/C10/Paired.v Engine/Regex.vio Gen/Patterns.vio PyRt/Str.vio Gen/Tables.vio Model/Trs.vio Model/Unpack.vio Model/TractPre.vio Model/Aliquot.vio Model/TractParse.vio Model/PlssPre.vio Model/PlssParse.vio
Proofs/C10/Paired.vos Proofs/C10/Paired.vok Proofs/C10/Paired.required_vos: Proofs/C10/Paired.v Engine/Regex.vos Gen/Patterns.vos PyRt/Str.vos Gen/Tables.vos Model/Trs.vos Model/Unpack.vos Model/TractPre.vos Model/Aliquot.vos Model/TractParse.vos Model/PlssPre.vos Model/PlssParse.vos
Proofs/C04/Walk.vo Proofs/C04/Walk.glob Proofs/C04/Walk.v.beautified Proofs/C04/Walk.required_vo: Proofs/C04/Walk.v Engine/Regex.vo Gen/Patterns.vo PyRt/Str.vo Gen/Tables.vo Model/Trs.vo Model/Unpack.vo Model/TractPre.vo Model/Aliquot.vo Model/TractParse.vo Model/PlssPre.vo Model/PlssParse.vo Proofs/C18/Lists.vo Proofs/C11/CopyAll.vo
Proofs/C04/Walk.vio: Proofs/C04/Walk.v Engine/Regex.vio Gen/Patterns.vio PyRt/Str.vio Gen/Tables.vio Model/Trs.vio Model/Unpack.vio Model/TractPre.vio Model/Aliquot.vio Model/TractParse.vio Model/PlssPre.vio Model/PlssParse.vio Proofs/C18/Lists.vio Proofs/C11/CopyAll.vio
Proofs/C04/Walk.vos Proofs/C04/Walk.vok Proofs/C04/Walk.required_vos: Proofs/C04/Walk.v Engine/Regex.vos Gen/Patterns.vos PyRt/Str.vos Gen/Tables.vos Model/Trs.vos Model/Unpack.vos Model/TractPre.vos Model/Aliquot.vos Model/TractParse.vos Model/PlssPre.vos Model/PlssParse.vos Proofs/C18/Lists.vos Proofs/C11/CopyAll.vos
Properties/C04.vo Properties/C04.glob Properties/C04.v.beautified Properties/C04.required_vo: Properties/C04.v Engine/Regex.vo Gen/Patterns.vo PyRt/Str.vo Gen/Tables.vo Model/Trs.vo Model/Unpack.vo Model/TractParse.vo Model/PlssPre.vo Model/PlssParse.vo Model/Config.vo Model/PlssDesc.vo Proofs/C04/Walk.vo
Properties/C04.vio: Properties/C04.v Engine/Regex.vio Gen/Patterns.vio PyRt/Str.vio Gen/Tables.vio Model/Trs.vio Model/Unpack.vio Model/TractParse.vio Model/PlssPre.vio Model/PlssParse.vio Model/Config.vio Model/PlssDesc.vio Proofs/C04/Walk.vio
Properties/C04.vos Properties/C04.vok Properties/C04.required_vos: Properties/C04.v Engine/Regex.vos Gen/Patterns.vos PyRt/Str.vos Gen/Tables.vos Model/Trs.vos Model/Unpack.vos Model/TractParse.vos Model/PlssPre.vos Model/PlssParse.vos Model/Config.vos Model/PlssDesc.vos Proofs/C04/Walk.vos
Properties/C09.vo Properties/C09.glob Properties/C09.v.beautified Properties/C09.required_vo: Properties/C09.v Engine/Regex.vo Gen/Patterns.vo PyRt/Str.vo Gen/Tables.vo Model/Trs.vo Model/Unpack.vo Model/TractParse.vo Model/PlssPre.vo Model/PlssParse.vo Model/Config.vo Model/PlssDesc.vo Proofs/C09/Tracts.vo
Properties/C09.vio: Properties/C09.v Engine/Regex.vio Gen/Patterns.vio PyRt/Str.vio Gen/Tables.vio Model/Trs.vio Model/Unpack.vio Model/TractParse.vio Model/PlssPre.vio Model/PlssParse.vio Model/Config.vio Model/PlssDesc.vio Proofs/C09/Tracts.vio
Properties/C09.vos Properties/C09.vok Properties/C09.required_vos: Properties/C09.v Engine/Regex.vos Gen/Patterns.vos PyRt/Str.vos Gen/Tables.vos Model/Trs.vos Model/Unpack.vos Model/TractParse.vos Model/PlssPre.vos Model/PlssParse.vos Model/Config.vos Model/PlssDesc.vos Proofs/C09/Tracts.vos
Properties/C10.vo Properties/C10.glob Properties/C10.v.beautified Properties/C10.required_vo: Properties/C10.v Engine/Regex.vo Gen/Patterns.vo PyRt/Str.vo Gen/Tables.vo Model/Trs.vo Model/Unpack.vo Model/TractParse.vo Model/PlssPre.vo Model/PlssParse.vo Model/Config.vo Model/PlssDesc.vo Proofs/C10/Paired.vo Proofs/C09/Tracts.vo
Properties/C10.vio: Properties/C10.v Engine/Regex.vio Gen/Patterns.vio PyRt/Str.vio Gen/Tables.vio Model/Trs.vio Model/Unpack.vio Model/TractParse.vio Model/PlssPre.vio Model/PlssParse.vio Model/Config.vio Model/PlssDesc.vio Proofs/C10/Paired.vio Proofs/C09/Tracts.vio
Properties/C10.vos Properties/C10.vok Properties/C10.required_vos: Properties/C10.v Engine/Regex.vos Gen/Patterns.vos PyRt/Str.vos Gen/Tables.vos Model/Trs.vos Model/Unpack.vos Model/TractParse.vos Model/PlssPre.vos Model/PlssParse.vos Model/Config.vos Model/PlssDesc.vos Proofs/C10/Paired.vos Proofs/C09/Tracts.vos
Properties/C20.vo Properties/C20.glob Properties/C20.v.beautified Properties/C20.required_vo: Properties/C20.v Engine/Regex.vo Gen/Patterns.vo PyRt/Str.vo Gen/Tables.vo Model/Trs.vo Model/Unpack.vo Model/TractParse.vo Model/PlssPre.vo Model/PlssParse.vo Model/Config.vo Model/PlssDesc.vo Proofs/C20/Modes.vo
Properties/C20.vio: Properties/C20.v Engine/Regex.vio Gen/Patterns.vio PyRt/Str.vio Gen/Tables.vio Model/Trs.vio Model/Unpack.vio Model/TractParse.vio Model/PlssPre.vio Model/PlssParse.vio Model/Config.vio Model/PlssDesc.vio Proofs/C20/Modes.vio
Properties/C20.vos Properties/C20.vok Properties/C20.required_vos: Properties/C20.v Engine/Regex.vos Gen/Patterns.vos PyRt/Str.vos Gen/Tables.vos Model/Trs.vos Model/Unpack.vos Model/TractParse.vos Model/PlssPre.vos Model/PlssParse.vos Model/Config.vos Model/PlssDesc.vos Proofs/C20/Modes.vos
Proofs/C03/Total.vo Proofs/C03/Total.glob Proofs/C03/Total.v.beautified Proofs/C03/Total.required_vo: Proofs/C03/Total.v Engine/Regex.vo Gen/Patterns.vo PyRt/Str.vo Gen/Tables.vo Model/Trs.vo Model/Unpack.vo Model/TractPre.vo Model/Aliquot.vo Model/TractParse.vo Model/PlssPre.vo Model/PlssParse.vo Proofs/C11/CopyAll.vo Proofs/C20/Modes.vo
Proofs/C03/Total.vio: Proofs/C03/Total.v Engine/Regex.vio Gen/Patterns.vio PyRt/Str.vio Gen/Tables.vio Model/Trs.vio Model/Unpack.vio Model/TractPre.vio Model/Aliquot.vio Model/TractParse.vio Model/PlssPre.vio Model/PlssParse.vio Proofs/C11/CopyAll.vio Proofs/C20/Modes.vio
Proofs/C03/Total.vos Proofs/C03/Total.vok Proofs/C03/Total.required_vos: Proofs/C03/Total.v Engine/Regex.vos Gen/Patterns.vos PyRt/Str.vos Gen/Tables.vos Model/Trs.vos Model/Unpack.vos Model/TractPre.vos Model/Aliquot.vos Model/TractParse.vos Model/PlssPre.vos Model/PlssParse.vos Proofs/C11/CopyAll.vos Proofs/C20/Modes.vos
Spec/C08Spec.vo Spec/C08Spec.glob Spec/C08Spec.v.beautified Spec/C08Spec.required_vo: Spec/C08Spec.v Engine/Regex.vo PyRt/Str.vo
Spec/C08Spec.vio: Spec/C08Spec.v Engine/Regex.vio PyRt/Str.vio
Spec/C08Spec.vos Spec/C08Spec.vok Spec/C08Spec.required_vos: Spec/C08Spec.v Engine/Regex.vos PyRt/Str.vos
Proofs/C08/Sweeps.vo Proofs/C08/Sweeps.glob Proofs/C08/Sweeps.v.beautified Proofs/C08/Sweeps.required_vo: Proofs/C08/Sweeps.v Engine/Regex.vo Gen/Patterns.vo PyRt/Str.vo Gen/Tables.vo Model/Trs.vo Model/Unpack.vo Model/TractPre.vo Model/PlssPre.vo Spec/C08Spec.vo
Proofs/C08/Sweeps.vio: Proofs/C08/Sweeps.v Engine/Regex.vio Gen/Patterns.vio PyRt/Str.vio Gen/Tables.vio Model/Trs.vio Model/Unpack.vio Model/TractPre.vio Model/PlssPre.vio Spec/C08Spec.vio
Proofs/C08/Sweeps.vos Proofs/C08/Sweeps.vok Proofs/C08/Sweeps.required_vos: Proofs/C08/Sweeps.v Engine/Regex.vos Gen/Patterns.vos PyRt/Str.vos Gen/Tables.vos Model/Trs.vos Model/Unpack.vos Model/TractPre.vos Model/PlssPre.vos Spec/C08Spec.vos
Properties/C03.vo Properties/C03.glob Properties/C03.v.beautified Properties/C03.required_vo: Properties/C03.v Engine/Regex.vo Gen/Patterns.vo PyRt/Str.vo Gen/Tables.vo Model/Trs.vo Model/Unpack.vo Model/TractParse.vo Model/PlssPre.vo Model/PlssParse.vo Model/Config.vo Model/PlssDesc.vo Proofs/C03/Total.vo Proofs/C11/CopyAll.vo
Properties/C03.vio: Properties/C03.v Engine/Regex.vio Gen/Patterns.vio PyRt/Str.vio Gen/Tables.vio Model/Trs.vio Model/Unpack.vio Model/TractParse.vio Model/PlssPre.vio Model/PlssParse.vio Model/Config.vio Model/PlssDesc.vio Proofs/C03/Total.vio Proofs/C11/CopyAll.vio
Properties/C03.vos Properties/C03.vok Properties/C03.required_vos: Properties/C03.v Engine/Regex.vos Gen/Patterns.vos PyRt/Str.vos Gen/Tables.vos Model/Trs.vos Model/Unpack.vos Model/TractParse.vos Model/PlssPre.vos Model/PlssParse.vos Model/Config.vos Model/PlssDesc.vos Proofs/C03/Total.vos Proofs/C11/CopyAll.vos
Properties/C08.vo Properties/C08.glob Properties/C08.v.beautified Properties/C08.required_vo: Properties/C08.v Engine/Regex.vo Gen/Patterns.vo PyRt/Str.vo Gen/Tables.vo Model/Trs.vo Model/Unpack.vo Model/PlssPre.vo Spec/C08Spec.vo Proofs/C08/Sweeps.vo
Properties/C08.vio: Properties/C08.v Engine/Regex.vio Gen/Patterns.vio PyRt/Str.vio Gen/Tables.vio Model/Trs.vio Model/Unpack.vio Model/PlssPre.vio Spec/C08Spec.vio Proofs/C08/Sweeps.vio
Properties/C08.vos Properties/C08.vok Properties/C08.required_vos: Properties/C08.v Engine/Regex.vos Gen/Patterns.vos PyRt/Str.vos Gen/Tables.vos Model/Trs.vos Model/Unpack.vos Model/PlssPre.vos Spec/C08Spec.vos Proofs/C08/Sweeps.vos
