Engine/Regex.vo Engine/Regex.glob Engine/Regex.v.beautified Engine/Regex.required_vo: Engine/Regex.v 
Engine/Regex.vio: Engine/Regex.v 
Engine/Regex.vos Engine/Regex.vok Engine/Regex.required_vos: Engine/Regex.v 
Gen/Patterns.vo Gen/Patterns.glob Gen/Patterns.v.beautified Gen/Patterns.required_vo: Gen/Patterns.v Engine/Regex.vo
Gen/Patterns.vio: Gen/Patterns.v Engine/Regex.vio
Gen/Patterns.vos Gen/Patterns.vok Gen/Patterns.required_vos: Gen/Patterns.v Engine/Regex.vos
Gen/Tables.vo Gen/Tables.glob Gen/Tables.v.beautified Gen/Tables.required_vo: Gen/Tables.v Engine/Regex.vo Gen/Patterns.vo
Gen/Tables.vio: Gen/Tables.v Engine/Regex.vio Gen/Patterns.vio
Gen/Tables.vos Gen/Tables.vok Gen/Tables.required_vos: Gen/Tables.v Engine/Regex.vos Gen/Patterns.vos
Extract/Val.vo Extract/Val.glob Extract/Val.v.beautified Extract/Val.required_vo: Extract/Val.v Engine/Regex.vo
Extract/Val.vio: Extract/Val.v Engine/Regex.vio
Extract/Val.vos Extract/Val.vok Extract/Val.required_vos: Extract/Val.v Engine/Regex.vos
Extract/Driver.vo Extract/Driver.glob Extract/Driver.v.beautified Extract/Driver.required_vo: Extract/Driver.v Engine/Regex.vo Gen/Patterns.vo Extract/Val.vo
Extract/Driver.vio: Extract/Driver.v Engine/Regex.vio Gen/Patterns.vio Extract/Val.vio
Extract/Driver.vos Extract/Driver.vok Extract/Driver.required_vos: Extract/Driver.v Engine/Regex.vos Gen/Patterns.vos Extract/Val.vos
